"""Library theories: builtins, gmpy2, int methods, lists/dicts, spec functions.  Every axiom here is an ASSUMED contract
on a dependency (DESIGN.md 2.5); the names used by a run are collected in engine.used_theories and reported."""
import ast
import z3

from . import values as V
from .values import (Opt, Ptr, Opaque, Ref, StrV, BytesV, FuncV, ModV, HList, HDict, HRec, HSet, HRecList, ElemRef,
                     HPointMap, PMEntry, HexStrSet, is_sym, is_int_like,
                     is_bool_like, to_z3, parse_type)

I = z3.IntSort()
B = z3.BoolSort()

ISQRT = z3.Function("isqrt", I, I)
GCD = z3.Function("gcd", I, I, I)
GCD_KA = z3.Function("gcd_ka", I, I, I)
GCD_KB = z3.Function("gcd_kb", I, I, I)
BL = z3.Function("bit_length", I, I)
POW2 = z3.Function("pow2", I, I)
BYTE_AT = z3.Function("byte_at", I, I, I, I)
POWMOD = z3.Function("powmod", I, I, I, I)
INV = z3.Function("invert", I, I, I)
INV_K = z3.Function("invert_k", I, I, I)
BXOR = z3.Function("bxor", I, I, I)
BAND = z3.Function("band", I, I, I)
BOR = z3.Function("bor", I, I, I)
POPCOUNT = z3.Function("popcount", I, I)
IS_PRIME = z3.Function("is_prime", I, B)

BUILTINS = {"len", "range", "abs", "min", "max", "divmod", "pow", "int", "bool", "list", "tuple", "set", "dict",
            "enumerate", "zip", "sum", "any", "all", "sorted", "reversed", "isinstance", "str", "bytes", "bytearray",
            "format", "map", "float", "round", "print", "hex", "bin", "frozenset", "iter", "next", "super", "type",
            "ValueError", "ArithmeticError", "KeyError", "TypeError", "IndexError", "ZeroDivisionError",
            "NotImplementedError", "Exception", "id", "repr", "object"}

LIB_MODULES = {"gmpy2", "math", "itertools", "heapq", "hashlib", "collections", "ast", "absl", "logging", "time",
               "numpy", "scipy", "random", "os", "enum", "typing", "lzma", "re", "abc", "fpylll", "sympy", "sys",
               "cryptography", "array", "functools", "struct", "binascii", "copy"}


def builtin(name):
  if name in BUILTINS:
    return FuncV("builtin", name)
  return None


def may_inline(f):
  return False


def exc_subclass(exc, names):
  table = {"ZeroDivisionError": ["ArithmeticError"], "IndexError": ["LookupError"], "KeyError": ["LookupError"],
           "InsufficientDataError": []}
  return any(n in table.get(exc, []) for n in names)


# ---------------------------------------------------------------------------------------------------------------------
# numeric theory terms (each adds its axiom instance to the path condition)


def t_isqrt(eng, st, x):
  eng.used_theories.add("gmpy2.isqrt: x>=0 => r>=0, r*r<=x<(r+1)^2")
  if isinstance(x, int):
    import math
    return math.isqrt(x)
  r = ISQRT(x)
  st.assume(z3.Implies(x >= 0, z3.And(r >= 0, r * r <= x, x < (r + 1) * (r + 1))))
  return r


def t_is_square(eng, st, x):
  eng.used_theories.add("gmpy2.is_square(x) <=> x>=0 and isqrt(x)^2==x")
  if isinstance(x, int):
    import math
    return x >= 0 and math.isqrt(x) ** 2 == x
  r = t_isqrt(eng, st, x)
  return z3.And(x >= 0, r * r == x)


def t_gcd(eng, st, a, b):
  eng.used_theories.add("gmpy2.gcd: g>=0, g|a, g|b, (g==0 <=> a==b==0), g<=|a| for a!=0")
  if isinstance(a, int) and isinstance(b, int):
    import math
    return math.gcd(a, b)
  a, b = to_z3(a), to_z3(b)
  g = GCD(a, b)
  ka, kb = GCD_KA(a, b), GCD_KB(a, b)
  st.assume(g >= 0, a == g * ka, b == g * kb, (g == 0) == z3.And(a == 0, b == 0),
            z3.Implies(a > 0, g <= a), z3.Implies(a < 0, g <= -a), z3.Implies(b > 0, g <= b),
            z3.Implies(b < 0, g <= -b),
            # exact division facts (valid: a == g*ka, g > 0): lets `a // gcd(a, b)` be used without nonlinear search
            z3.Implies(g > 0, z3.And(a / g == ka, a % g == 0, b / g == kb, b % g == 0)))
  return g


def t_pow2(eng, st, e):
  """2**e for e >= 0."""
  if isinstance(e, int):
    return 2 ** e
  eng.used_theories.add("pow2: pow2(e)>=1, pow2(0)=1, pow2(e+1)=2*pow2(e) (instantiated at e), monotone on used terms")
  p = POW2(e)
  st.assume(z3.Implies(e >= 0, p >= 1), z3.Implies(e >= 1, z3.And(p == 2 * POW2(e - 1), p >= 2)),
            z3.Implies(e == 0, p == 1), z3.Implies(e >= 0, POW2(e + 1) == 2 * p),
            z3.Implies(e == 1, p == 2), z3.Implies(e == 2, p == 4), z3.Implies(e == 3, p == 8),
            z3.Implies(e == 4, p == 16), z3.Implies(e == 5, p == 32), z3.Implies(e == 6, p == 64),
            z3.Implies(e == 7, p == 128), z3.Implies(e == 8, p == 256), z3.Implies(e == 16, p == 65536),
            z3.Implies(e == 32, p == 2 ** 32), z3.Implies(e == 64, p == 2 ** 64))
  # relate to previously used exponents on this path (monotonicity, additive law for equal terms)
  used = st.__dict__.setdefault("pow2_terms", [])
  if st.nofresh:
    # exponent under a binder (quantified clause): only the basic axioms above are closed over the bound variable;
    # pairwise monotonicity instances would each become one more quantified hypothesis
    return p
  for o in used[-12:]:
    if o.eq(e):
      continue
    st.assume(z3.Implies(z3.And(o >= 0, o <= e), POW2(o) <= p), z3.Implies(z3.And(e >= 0, e <= o), p <= POW2(o)),
              z3.Implies(z3.And(o >= 0, o < e), 2 * POW2(o) <= p), z3.Implies(z3.And(e >= 0, e < o), 2 * p <= POW2(o)))
  if not any(o.eq(e) for o in used):
    used.append(e)
  return p


def syntactically_positive(t):
  """Conservative syntactic test: numerals > 0, pow2(..) terms, products / sums of such."""
  if z3.is_int_value(t):
    return t.as_long() > 0
  if z3.is_app(t):
    d = t.decl()
    if d.name() == "pow2":
      return True      # pow2(e) >= 1 is only axiomatised for e >= 0; 2**e with e < 0 never reaches integer division
    if d.kind() in (z3.Z3_OP_MUL, z3.Z3_OP_ADD) and t.num_args() > 0:
      return all(syntactically_positive(c) for c in t.children())
  return False


def t_bit_length(eng, st, x):
  if isinstance(x, int):
    return x.bit_length()
  eng.used_theories.add("int.bit_length: bl(0)=0, x>0 => 2^(bl-1)<=x<2^bl, bl(-x)=bl(x)")
  b = BL(x)
  st.assume(b >= 0, (b == 0) == (x == 0))
  p = t_pow2(eng, st, b)
  st.assume(z3.Implies(x > 0, z3.And(p <= 2 * x, x < p)), z3.Implies(x < 0, z3.And(p <= -2 * x, -x < p)))
  return b


def power(eng, st, x, y, node):
  if isinstance(x, int) and isinstance(y, int):
    if y < 0:
      return Opaque("negative power (float)")
    if y * max(1, abs(x).bit_length()) > 10**7:
      raise_unsupported("huge concrete power")
    return x ** y
  if isinstance(y, int):
    if y < 0:
      return Opaque("negative power (float)")
    if y <= 6:
      r = 1
      for _ in range(y):
        r = r * x
      return r
    raise_unsupported("symbolic base with large exponent")
  if isinstance(x, int) and x == 2:
    eng.implicit(st, "float-result", y >= 0, node, "2**negative is a float")
    return t_pow2(eng, st, y)
  if isinstance(x, int) and x > 0 and (x & (x - 1)) == 0:
    k = x.bit_length() - 1
    eng.implicit(st, "float-result", y >= 0, node, "negative exponent")
    return t_pow2(eng, st, k * y)
  raise_unsupported("general symbolic power")


def raise_unsupported(msg):
  from .engine import Unsupported
  raise Unsupported(msg)


def lshift(eng, st, x, y, node):
  eng.implicit(st, "ValueError", to_z3(y) >= 0, node, "negative shift count")
  return x * t_pow2(eng, st, y)


def rshift(eng, st, x, y, node):
  eng.implicit(st, "ValueError", to_z3(y) >= 0, node, "negative shift count")
  p = t_pow2(eng, st, y)
  if isinstance(p, int):
    return to_z3(x) / p
  r = to_z3(x) / p
  # definition of floor division by the positive power of two, stated explicitly (helps the non-linear solver)
  st.assume(z3.Implies(p >= 1, z3.And(r * p <= to_z3(x), to_z3(x) < r * p + p)))
  return r


def _mask_exp(v):
  """If concrete v == 2**k - 1 returns k."""
  if isinstance(v, int) and v >= 0 and (v & (v + 1)) == 0:
    return v.bit_length()
  return None


def bitop(eng, st, op, x, y, node):
  if isinstance(op, ast.BitAnd):
    for a, b in ((x, y), (y, x)):
      k = _mask_exp(b)
      if k is not None:
        return to_z3(a) % (2 ** k)
      if is_sym(b):
        b1 = z3.simplify(b + 1)
        if z3.is_app(b1) and b1.decl().eq(POW2.__call__(z3.IntVal(0)).decl()):
          # x & (2**e - 1) == x mod 2**e   (e >= 0)
          e = b1.arg(0)
          return eng.mod(st, a, t_pow2(eng, st, e), node)
    eng.used_theories.add("band: 0<=band(a,b)<=min(a,b) for a,b>=0 (uninterpreted otherwise)")
    r = BAND(to_z3(x), to_z3(y))
    st.assume(z3.Implies(z3.And(to_z3(x) >= 0, to_z3(y) >= 0), z3.And(r >= 0, r <= to_z3(x), r <= to_z3(y))),
              z3.Implies(to_z3(y) >= 0, z3.And(r >= 0, r <= to_z3(y))),
              z3.Implies(to_z3(x) >= 0, z3.And(r >= 0, r <= to_z3(x))))
    return r
  if isinstance(op, ast.BitOr):
    eng.used_theories.add("bor: max(a,b)<=bor(a,b)<=a+b for a,b>=0; bor(a, 2^k)=a+2^k if bit k clear (not modelled)")
    r = BOR(to_z3(x), to_z3(y))
    st.assume(z3.Implies(z3.And(to_z3(x) >= 0, to_z3(y) >= 0),
                         z3.And(r >= to_z3(x), r >= to_z3(y), r <= to_z3(x) + to_z3(y))))
    return r
  eng.used_theories.add("bxor: 0<=bxor(a,b)<=a+b for a,b>=0; bxor(a,b)%2 == (a+b)%2")
  r = BXOR(to_z3(x), to_z3(y))
  st.assume(z3.Implies(z3.And(to_z3(x) >= 0, to_z3(y) >= 0), z3.And(r >= 0, r <= to_z3(x) + to_z3(y))),
            r % 2 == (to_z3(x) + to_z3(y)) % 2)
  return r


def float_binop(eng, st, op, a, b, node):
  if isinstance(a, (int, float)) and isinstance(b, (int, float)) and not isinstance(a, bool):
    try:
      if isinstance(op, ast.Div):
        return a / b
      if isinstance(op, ast.Add):
        return a + b
      if isinstance(op, ast.Sub):
        return a - b
      if isinstance(op, ast.Mult):
        return a * b
      if isinstance(op, ast.Pow):
        return a ** b
      if isinstance(op, ast.FloorDiv):
        return a // b
      if isinstance(op, ast.Mod):
        return a % b
    except (ZeroDivisionError, OverflowError):
      pass
  eng.abstracted.add(f"float expression at L{getattr(node, 'lineno', 0)} ({ast.unparse(node)[:60]})")
  return Opaque("float")


# ---------------------------------------------------------------------------------------------------------------------
# spec functions (contract language)

SPEC_FUNCS = {}


def specfn(name):
  def deco(f):
    SPEC_FUNCS[name] = f
    return f
  return deco


def spec_name(eng, st, name):
  if name == "True":
    return True
  return None


def _bind_eval(eng, st, names, body_node):
  """Evaluates body with fresh bound int variables; theory axioms generated inside are universally closed."""
  from .engine import Frame
  vs = [z3.Int(V.fresh_name("q_" + n)) for n in names]
  fr = Frame(dict(zip(names, vs)), st.frame, st.frame.module, fname=st.frame.fname)
  n0 = len(st.pc)
  st.frames.append(fr)
  st.nofresh += 1
  try:
    body = eng.truthy(st, eng.ev(body_node, st))
  finally:
    st.nofresh -= 1
    st.frames.pop()
  axioms = st.pc[n0:]
  del st.pc[n0:]
  return vs, body, axioms


_CANON = [z3.Int(f"canon!{i}") for i in range(4)]


def _assume_closed(st, vs, ax):
  """Assumes ForAll(vs, ax) unless an alpha-equivalent closed axiom is already among the hypotheses of this path
  (clauses with binders are evaluated several times: entry, assumption at the cut, preservation)."""
  if isinstance(ax, bool):
    if not ax:
      st.assume(False)
    return
  if len(vs) <= len(_CANON):
    key = z3.substitute(ax, *[(v, c) for v, c in zip(vs, _CANON)]).get_id()
    seen = st.__dict__.setdefault("closed_axioms", {})
    # the set must shrink with the path condition (hint scopes, by() truncate st.pc): remember the pc length
    if key in seen and seen[key] < len(st.pc) and st.pc[seen[key]] is not None and st.pc[seen[key]].get_id() == seen.get(("id", key)):
      return
    st.assume(z3.ForAll(vs, ax))
    seen[key] = len(st.pc) - 1
    seen[("id", key)] = st.pc[-1].get_id()
    return
  st.assume(z3.ForAll(vs, ax))


def spec_call(eng, st, node):
  name = node.func.id
  if name in ("forall", "exists"):
    # forall(v, lo, hi, body)  /  forall((v, w), cond, body)
    if len(node.args) == 4:
      vname = node.args[0].id
      lo = eng.need_int(st, eng.ev(node.args[1], st))
      hi = eng.need_int(st, eng.ev(node.args[2], st))
      if isinstance(lo, int) and isinstance(hi, int) and hi <= lo:
        return name == "forall"     # empty range
      if isinstance(lo, int) and isinstance(hi, int) and hi - lo <= 64:
        from .engine import Frame
        outs = []
        for val in range(lo, hi):
          fr = Frame({vname: val}, st.frame, st.frame.module, fname=st.frame.fname)
          st.frames.append(fr)
          try:
            outs.append(eng.truthy(st, eng.ev(node.args[3], st)))
          finally:
            st.frames.pop()
        return eng.and_(*outs) if name == "forall" else eng.or_(*outs)
      vs, body, axioms = _bind_eval(eng, st, [vname], node.args[3])
      v = vs[0]
      rng = z3.And(to_z3(lo) <= v, v < to_z3(hi))
      for ax in axioms:
        _assume_closed(st, vs, ax)
      body = body if not isinstance(body, bool) else z3.BoolVal(body)
      if name == "forall":
        return z3.ForAll(vs, z3.Implies(rng, body))
      return z3.Exists(vs, z3.And(rng, body))
    if len(node.args) == 3:
      tgt = node.args[0]
      names = [tgt.id] if isinstance(tgt, ast.Name) else [e.id for e in tgt.elts]
      comb = ast.Tuple(elts=[node.args[1], node.args[2]], ctx=ast.Load())
      from .engine import Frame
      vs = [z3.Int(V.fresh_name("q_" + n)) for n in names]
      fr = Frame(dict(zip(names, vs)), st.frame, st.frame.module, fname=st.frame.fname)
      n0 = len(st.pc)
      st.frames.append(fr)
      st.nofresh += 1
      try:
        cond = eng.truthy(st, eng.ev(node.args[1], st))
        body = eng.truthy(st, eng.ev(node.args[2], st))
      finally:
        st.nofresh -= 1
        st.frames.pop()
      axioms = st.pc[n0:]
      del st.pc[n0:]
      for ax in axioms:
        _assume_closed(st, vs, ax)
      cond = cond if not isinstance(cond, bool) else z3.BoolVal(cond)
      body = body if not isinstance(body, bool) else z3.BoolVal(body)
      if name == "forall":
        return z3.ForAll(vs, z3.Implies(cond, body))
      return z3.Exists(vs, z3.And(cond, body))
    raise_unsupported("forall/exists arity")
  if name == "implies":
    a = eng.truthy(st, eng.ev(node.args[0], st))
    if isinstance(a, bool) and not a:
      return True
    b = eng.truthy(st, eng.ev(node.args[1], st))
    return eng.implies(a, b)
  if name == "iff":
    a = eng.truthy(st, eng.ev(node.args[0], st))
    b = eng.truthy(st, eng.ev(node.args[1], st))
    if isinstance(a, bool) and isinstance(b, bool):
      return a == b
    return to_z3(a) == to_z3(b)
  if name == "old":
    if st.old is None:
      raise_unsupported("old() outside a postcondition")
    from .engine import Frame
    env, snap = st.old
    saved = {a: st.heap[a] for a in snap if a in st.heap}
    for a, o in snap.items():
      st.heap[a] = o
    fr = Frame(dict(env), st.frame, st.frame.module, fname=st.frame.fname)   # bound variables via the closure link
    st.frames.append(fr)
    try:
      return eng.ev(node.args[0], st)
    finally:
      st.frames.pop()
      for a, o in saved.items():
        st.heap[a] = o
  if name == "ghost":
    return st.ghost[node.args[0].value if isinstance(node.args[0], ast.Constant) else node.args[0].id]
  if name in SPEC_FUNCS:
    args = [eng.ev(a, st) for a in node.args]
    return SPEC_FUNCS[name](eng, st, *args)
  from . import contracts as C
  if name in C.MACROS:
    from .engine import Frame
    params, body = C.MACROS[name]
    args = [eng.ev(a, st) for a in node.args]
    fr = Frame(dict(zip(params, args)), None, st.frame.module, fname="macro:" + name)
    st.frames.append(fr)
    try:
      return eng.ev(body, st)
    finally:
      st.frames.pop()
  return NotImplemented


@specfn("is_square")
def _s_is_square(eng, st, x):
  return t_is_square(eng, st, eng.need_int(st, x))


@specfn("isqrt")
def _s_isqrt(eng, st, x):
  return t_isqrt(eng, st, eng.need_int(st, x))


@specfn("ceil_sqrt")
def _s_ceil_sqrt(eng, st, x):
  x = eng.need_int(st, x)
  if isinstance(x, int):
    import math
    r = math.isqrt(x)
    return r if r * r == x else r + 1
  r = t_isqrt(eng, st, x)
  return z3.If(r * r == x, r, r + 1)


@specfn("pow2")
def _s_pow2(eng, st, e):
  return t_pow2(eng, st, eng.need_int(st, e))


@specfn("bit_length")
def _s_bl(eng, st, x):
  return t_bit_length(eng, st, eng.need_int(st, x))


@specfn("gcd")
def _s_gcd(eng, st, a, b):
  return t_gcd(eng, st, eng.need_int(st, a), eng.need_int(st, b))


@specfn("divides")
def _s_divides(eng, st, a, b):
  """a | b, i.e. b == a*k for some k; as a HYPOTHESIS z3 gets a skolem witness, as a GOAL it must find k."""
  a, b = eng.need_int(st, a), eng.need_int(st, b)
  if isinstance(a, int) and isinstance(b, int):
    return (b == 0) if a == 0 else b % a == 0
  k = z3.Int(V.fresh_name("dk"))
  return z3.Exists([k], to_z3(b) == to_z3(a) * k)


@specfn("powmod")
def _s_powmod(eng, st, a, e, m):
  return t_powmod(eng, st, eng.need_int(st, a), eng.need_int(st, e), eng.need_int(st, m))


@specfn("is_prime")
def _s_is_prime(eng, st, p):
  return IS_PRIME(to_z3(eng.need_int(st, p)))


@specfn("fits")
def _s_fits(eng, st, r, n):
  r, n = eng.need_int(st, r), eng.need_int(st, n)
  return eng.and_(r >= 0, to_z3(r) < t_pow2(eng, st, n) if not (isinstance(r, int) and isinstance(n, int)) else
                  r < 2 ** n)


@specfn("imod")
def _s_imod(eng, st, a, b):
  return eng.mod(st, eng.need_int(st, a), eng.need_int(st, b), None)


@specfn("idiv")
def _s_idiv(eng, st, a, b):
  return eng.floordiv(st, eng.need_int(st, a), eng.need_int(st, b), None)


@specfn("ite")
def _s_ite(eng, st, c, a, b):
  return eng.ite(eng.truthy(st, c), a, b)


@specfn("index")
def _s_index(eng, st, e):
  if isinstance(e, Opt):
    e = e.val
  return e.idx


@specfn("str_nonempty")
def _s_str_nonempty(eng, st, x):
  if isinstance(x, str):
    return len(x) > 0
  return STRLEN(x.term) > 0


@specfn("current_version")
def _s_current_version(eng, st):
  from . import source
  return read_version(eng)


def _uf(eng, st, name, args, ret):
  terms = []
  for a in args:
    if isinstance(a, (str, StrV)):
      terms.append(str_term(eng, st, a))
    elif isinstance(a, Ref):
      terms.append(a.term)
    elif isinstance(a, BytesV):
      terms += [to_z3(a.length), to_z3(a.val)]
    else:
      terms.append(to_z3(eng.need_int(st, a)))
  return z3.Function(name, *[t.sort() for t in terms], ret)(*terms)


@specfn("ufb")
def _s_ufb(eng, st, name, *args):
  """Uninterpreted boolean spec function: ufb('name', args...)."""
  return _uf(eng, st, "spec." + name, args, B)


@specfn("ufi")
def _s_ufi(eng, st, name, *args):
  return _uf(eng, st, "spec." + name, args, I)


@specfn("member")
def _s_member(eng, st, cont, item):
  return eng.contains(st, cont, item, None)


@specfn("iter_has")
def _s_iter_has(eng, st, it, x):
  """x occurs in the int iterable `it` (ghost relation for ref:IntIterable parameters; concrete tuples / lists / sets at
  call sites)."""
  if isinstance(it, Ref):
    return ITER_HAS(it.term, to_z3(eng.need_int(st, x)))
  if isinstance(it, Opt):
    it = it.val
  if isinstance(it, tuple):
    return eng.or_(*[eng.eq(st, x, e) for e in it]) if it else False
  if isinstance(it, Ptr):
    o = st.deref(it)
    if isinstance(o, HList) and not o.symbolic:
      return eng.or_(*[eng.eq(st, x, e) for e in o.items]) if o.items else False
    return eng.contains(st, it, x, None)
  raise_unsupported("iter_has of this value")


@specfn("hexset_has")
def _s_hexset_has(eng, st, s, x):
  """x is in the int set whose hex-string set has the string form s (library theory of str(set) / literal_eval)."""
  return z3.Select(SETDEC(str_term(eng, st, s)), to_z3(eng.need_int(st, x)))


@specfn("pm_has")
def _s_pm_has(eng, st, m, px, py, idx):
  if isinstance(m, Ptr) and isinstance(st.deref(m), HPointMap):
    m = st.deref(m)
  return PM_HAS(m.term, to_z3(eng.need_int(st, px)), to_z3(eng.need_int(st, py)), to_z3(eng.need_int(st, idx)))


@specfn("dict_has")
def _s_dict_has(eng, st, d, k):
  return eng.contains(st, d, k, None)


@specfn("bor")
def _s_bor(eng, st, a, b):
  """a | b (same term as the engine produces for the operator)."""
  a, b = eng.need_int(st, a), eng.need_int(st, b)
  if isinstance(a, int) and isinstance(b, int):
    return a | b
  return bitop(eng, st, ast.BitOr(), a, b, None)


@specfn("bxor")
def _s_bxor(eng, st, a, b):
  """a ^ b (same term as the engine produces for the operator)."""
  a, b = eng.need_int(st, a), eng.need_int(st, b)
  if isinstance(a, int) and isinstance(b, int):
    return a ^ b
  return bitop(eng, st, ast.BitXor(), a, b, None)


@specfn("invert")
def _s_invert(eng, st, x, m):
  """gmpy2.invert(x, m) as a term (same uninterpreted function as the engine uses for the call)."""
  return INV(to_z3(eng.need_int(st, x)), to_z3(eng.need_int(st, m)))


@specfn("invert_k")
def _s_invert_k(eng, st, x, m):
  """The cofactor k of the inverse: x * invert(x, m) == 1 + m * k (when the inverse exists)."""
  return INV_K(to_z3(eng.need_int(st, x)), to_z3(eng.need_int(st, m)))


@specfn("defined")
def _s_defined(eng, st, name):
  """True iff the local variable `name` is bound on the current path (used to guard hints to one return site)."""
  for fr in st.frames[:1]:
    if name in fr.env:
      return True
  return False


@specfn("used_urandom")
def _s_used_urandom(eng, st):
  """True iff os.urandom was called on the current path (ghost flag maintained by the os.urandom theory)."""
  return bool(st.__dict__.get("used_urandom", False))


@specfn("hex_of")
def _s_hex_of(eng, st, x):
  """format(x, 'x') (same term as the engine produces for the call)."""
  return format_(eng, st, eng.need_int(st, x), "x", None)


@specfn("int_le")
def _s_int_le(eng, st, b):
  """int.from_bytes(b, 'little') (same term as the engine produces for the call)."""
  return int_from_bytes(eng, st, [b, "little"], {}, None)


@specfn("bval")
def _s_bval(eng, st, b):
  return bytes_val(b).val


@specfn("blen")
def _s_blen(eng, st, b):
  return bytes_val(b).length


@specfn("is_none")
def _s_is_none(eng, st, x):
  return eng.is_(st, x, None)


@specfn("euclid")
def _s_euclid(eng, st, x, p, r, w):
  """Uniqueness of Euclidean division (theory axiom instance, valid over the integers):
  x == r + p*w and 0 <= r < p  ==>  x mod p == r and x div p == w.  Always returns True."""
  x, p, r, w = [to_z3(eng.need_int(st, v)) for v in (x, p, r, w)]
  eng.used_theories.add("Euclidean division is unique: x == r + p*w, 0<=r<p ==> x%p == r, x//p == w")
  st.assume(z3.Implies(z3.And(x == r + p * w, 0 <= r, r < p), z3.And(x % p == r, x / p == w)))
  return True


@specfn("divmod_def")
def _s_divmod_def(eng, st, x, p):
  """Theory axiom instance (definition of floor division for a positive divisor):
  p > 0 ==> x == p*(x div p) + x mod p and 0 <= x mod p < p.  Always returns True."""
  x, p = to_z3(eng.need_int(st, x)), to_z3(eng.need_int(st, p))
  eng.used_theories.add("definition of // and % for a positive divisor (instantiated on request)")
  st.assume(z3.Implies(p > 0, z3.And(x == p * (x / p) + x % p, 0 <= x % p, x % p < p)))
  return True


@specfn("div_lt")
def _s_div_lt(eng, st, x, p, q):
  """Theory lemma instance (valid): p > 0 and x < p*q ==> x div p < q;  p > 0 and x >= 0 ==> x div p >= 0."""
  x, p, q = [to_z3(eng.need_int(st, v)) for v in (x, p, q)]
  eng.used_theories.add("p>0, x<p*q ==> x//p < q; p>0, x>=0 ==> x//p >= 0 (instantiated on request)")
  st.assume(z3.Implies(z3.And(p > 0, x < p * q), x / p < q), z3.Implies(z3.And(p > 0, x >= 0), x / p >= 0))
  return True


FDIV = z3.Function("fdiv", I, I, I)
FMOD = z3.Function("fmod", I, I, I)


@specfn("fdiv")
def _s_fdiv(eng, st, x, p):
  """x // p as an OPAQUE term (no arithmetic meaning until flat_def(x, p) is requested): for use under quantifiers, where
  non-linear division terms make the solvers diverge."""
  return FDIV(to_z3(eng.need_int(st, x)), to_z3(eng.need_int(st, p)))


@specfn("fmod")
def _s_fmod(eng, st, x, p):
  return FMOD(to_z3(eng.need_int(st, x)), to_z3(eng.need_int(st, p)))


@specfn("flat_def")
def _s_flat_def(eng, st, x, p):
  """Definition instance: fdiv(x, p) == x // p and fmod(x, p) == x % p (for p > 0).  Always returns True."""
  x, p = to_z3(eng.need_int(st, x)), to_z3(eng.need_int(st, p))
  eng.used_theories.add("fdiv/fmod: opaque names for // and % (positive divisor), definition instantiated on request")
  st.assume(z3.Implies(p > 0, z3.And(FDIV(x, p) == x / p, FMOD(x, p) == x % p)))
  return True


CMOD0 = z3.Function("cmod0", I, I, z3.BoolSort())


@specfn("cmod0")
def _s_cmod0(eng, st, x, n):
  """x % n == 0 as an OPAQUE predicate (for use under quantifiers); meaning on request through cmod0_def(x, n)."""
  return CMOD0(to_z3(eng.need_int(st, x)), to_z3(eng.need_int(st, n)))


@specfn("cmod0_def")
def _s_cmod0_def(eng, st, x, n):
  """Definition instance: cmod0(x, n) == (x % n == 0).  Always returns True."""
  x, n = to_z3(eng.need_int(st, x)), to_z3(eng.need_int(st, n))
  eng.used_theories.add("cmod0: opaque name for x % n == 0, definition instantiated on request")
  st.assume(CMOD0(x, n) == (eng.mod(st, x, n, None) == 0))
  return True


@specfn("lemma")
def _s_lemma(eng, st, name, *args):
  """Instance of a lemma declared with contracts.lemma (proved from the theory axioms on every run of every property
  that uses it, see pyvc/lemmas.py): assumes hyps(args) ==> concl(args).  Always returns True."""
  from . import contracts as C
  from .engine import Frame
  lem = C.LEMMAS.get(name)
  if lem is None or len(args) != len(lem.vars):
    raise_unsupported(f"lemma {name!r}: unknown or wrong number of arguments")
  if lem.axiom:
    eng.abstracted.add(f"axiom schema of the specification theory '{name}': " + " and ".join(h.text for h in lem.hyps) +
                       " ==> " + " and ".join(c.text for c in lem.concl))
  else:
    eng.used_theories.add(f"lemma:{name}")
  env = {n: eng.need_int(st, a) for n, a in zip(lem.vars, args)}
  fr = Frame(env, None, st.frame.module, fname="lemma:" + name)
  st.frames.append(fr)
  try:
    hy = [eng.truthy(st, eng.ev(h.node, st)) for h in lem.hyps]
    co = [eng.truthy(st, eng.ev(c.node, st)) for c in lem.concl]
  finally:
    st.frames.pop()
  st.assume(eng.implies(eng.and_(*hy) if hy else True, eng.and_(*co)))
  return True


@specfn("pow2_add")
def _s_pow2_add(eng, st, a, b):
  """Theory axiom instance: a,b >= 0 ==> pow2(a+b) == pow2(a)*pow2(b).  Always returns True."""
  a, b = to_z3(eng.need_int(st, a)), to_z3(eng.need_int(st, b))
  eng.used_theories.add("pow2(a+b) == pow2(a)*pow2(b) for a,b>=0 (instantiated on request)")
  st.assume(z3.Implies(z3.And(a >= 0, b >= 0), t_pow2(eng, st, a + b) == t_pow2(eng, st, a) * t_pow2(eng, st, b)))
  return True


@specfn("pow2_const")
def _s_pow2_const(eng, st, e, k):
  """Theory axiom instance (monotonicity of 2^x between a term and a numeral K): 0 <= e <= K ==> pow2(e) <= 2^K and
  e >= K ==> pow2(e) >= 2^K.  Always returns True."""
  e = to_z3(eng.need_int(st, e))
  if not isinstance(k, int) or k < 0 or k > 10**5:
    raise_unsupported("pow2_const: the second argument must be a small non-negative numeral")
  eng.used_theories.add("pow2 monotone against a numeral exponent (instantiated on request)")
  p = t_pow2(eng, st, e)
  st.assume(z3.Implies(z3.And(e >= 0, e <= k), p <= 2 ** k), z3.Implies(e >= k, p >= 2 ** k),
            z3.Implies(z3.And(e >= 0, e < k), 2 * p <= 2 ** k), z3.Implies(e > k, p >= 2 ** (k + 1)))
  return True


def t_powmod(eng, st, a, e, m):
  if isinstance(a, int) and isinstance(e, int) and isinstance(m, int) and m != 0 and e >= 0:
    return pow(a, e, m)
  eng.used_theories.add("pow(a,e,m): 0<=r<m for m>0; powmod(a,0,m)=1%m; powmod(a,e+1,m)=powmod(a,e,m)*a%m at used e")
  a, e, m = to_z3(a), to_z3(e), to_z3(m)
  r = POWMOD(a, e, m)
  st.assume(z3.Implies(m > 0, z3.And(r >= 0, r < m)), z3.Implies(z3.And(e == 0, m > 0), r == 1 % m),
            z3.Implies(z3.And(e >= 0, m > 0), POWMOD(a, e + 1, m) == (r * a) % m))
  return r


def t_invert(eng, st, x, m, node):
  """gmpy2.invert(x, m): ZeroDivisionError iff no inverse exists; else 0<=r<m (m>0) and x*r == 1 + m*k."""
  eng.used_theories.add("gmpy2.invert(x,m): raises iff gcd(x,m)!=1 (or m==0); else 0<=r<|m| and m | x*r-1")
  x, m = to_z3(x), to_z3(m)
  g = t_gcd(eng, st, x, m)
  eng.implicit(st, "ZeroDivisionError", z3.And(m != 0, g == 1), node, "invert of a non-unit")
  r, k = INV(x, m), INV_K(x, m)
  # the defining equation holds only when an inverse exists (in code mode `implicit` above assumes exactly that)
  st.assume(z3.Implies(m > 0, z3.And(r >= 0, r < m)), z3.Implies(z3.And(m != 0, g == 1), x * r == 1 + m * k),
            z3.Implies(m == 1, r == 0))
  if st.__dict__.get("cong_mod") is not None and not st.spec:
    eng.taint_value(st, r)     # congruence mode: the inverse is a residue; comparisons on it are arbitrary
  return r


# ---------------------------------------------------------------------------------------------------------------------
# module attributes of library modules

LIB_FUNCS = {
    ("gmpy2", "isqrt"), ("gmpy2", "is_square"), ("gmpy2", "gcd"), ("gmpy2", "mpz"), ("gmpy2", "invert"),
    ("gmpy2", "f_mod_2exp"), ("gmpy2", "bit_length"), ("gmpy2", "popcount"), ("gmpy2", "is_prime"),
    ("gmpy2", "powmod"), ("gmpy2", "next_prime"), ("gmpy2", "lcm"), ("gmpy2", "hamdist"), ("gmpy2", "bit_test"),
    ("gmpy2", "iroot"), ("gmpy2", "t_mod_2exp"), ("gmpy2", "divexact"), ("gmpy2", "c_div"), ("gmpy2", "f_div"),
    ("math", "sqrt"), ("math", "log"), ("math", "log2"), ("math", "gcd"), ("math", "isqrt"), ("math", "erfc"),
    ("math", "erf"), ("math", "exp"), ("math", "floor"), ("math", "ceil"), ("math", "fabs"), ("math", "lgamma"),
    ("math", "prod"), ("math", "comb"), ("math", "factorial"), ("math", "pi"), ("math", "inf"), ("math", "e"),
    ("itertools", "zip_longest"), ("itertools", "product"), ("itertools", "combinations"), ("itertools", "chain"),
    ("itertools", "count"), ("itertools", "accumulate"), ("itertools", "islice"),
    ("heapq", "heappush"), ("heapq", "heappop"), ("heapq", "heapify"),
    ("time", "time"), ("os", "urandom"), ("collections", "defaultdict"), ("collections", "Counter"),
    ("ast", "literal_eval"), ("random", "getrandbits"), ("random", "seed"),
}


def module_attr(eng, st, mod, attr):
  root = mod.name.split(".")[0]
  if mod.name in ("absl", "absl.logging", "logging") or (root == "absl"):
    if attr == "logging":
      return ModV("absl.logging")
    if attr == "flags":
      return ModV("absl.flags")
    return FuncV("lib", f"logging.{attr}")
  if mod.name == "math" and attr in ("pi", "inf", "e"):
    import math
    return getattr(math, attr)
  if (mod.name, attr) in LIB_FUNCS:
    return FuncV("lib", f"{mod.name}.{attr}")
  if mod.name.endswith("paranoid_pb2") or mod.name.endswith("data_pb2"):
    return pb2_attr(eng, st, mod, attr)
  if attr.endswith("_pb2"):
    return ModV(mod.name + "." + attr)
  import os
  from . import source
  if os.path.isdir(os.path.join(eng.repo or source.REPO, (mod.name + "." + attr).replace(".", "/"))):
    return ModV(mod.name + "." + attr)
  if root in LIB_MODULES or mod.name.startswith("paranoid_crypto"):
    return Opaque(f"{mod.name}.{attr}")
  raise_unsupported(f"module attribute {mod.name}.{attr}")


def read_version(eng):
  """paranoid_crypto.version.__version__ = content of the VERSION resource (resources.GetParanoidResource is assumed to
  return the file's bytes)."""
  import os
  from . import source
  eng.used_theories.add("version.__version__ == stripped content of paranoid_crypto/VERSION (resource loader trusted)")
  return open(os.path.join(eng.repo or source.REPO, "paranoid_crypto/VERSION")).read().strip()


_proto_cache = {}


def proto(eng):
  key = eng.repo or "default"
  if key not in _proto_cache:
    from . import source
    _proto_cache[key] = source.parse_proto("paranoid_crypto/paranoid.proto", eng.repo)
  return _proto_cache[key]


class EnumV:
  def __init__(self, name, members):
    self.name, self.members = name, members


def pb2_attr(eng, st, mod, attr):
  enums, messages = proto(eng)
  if attr in enums:
    return EnumV(attr, enums[attr])
  for e in enums.values():
    if attr in e:
      return e[attr]
  if attr in messages:
    return FuncV("class", "pb2." + attr, node=None, module=None)
  return Opaque(f"{mod.name}.{attr}")


PB_SCALAR = {"bytes": "bytes", "string": "str", "bool": "bool", "uint64": "int", "int64": "int", "uint32": "int",
             "int32": "int"}


def pb_field_type(eng, cls, attr):
  enums, messages = proto(eng)
  if cls not in messages or attr not in messages[cls]:
    return None
  ft, rep = messages[cls][attr]
  if rep:
    return ("replist", ft)
  if ft in PB_SCALAR:
    return PB_SCALAR[ft]
  if ft in enums:
    return "int"
  if ft in messages:
    return ("ref", ft)
  return None


def ref_attr(eng, st, base, attr, node):
  """Attribute read on an opaque reference: an uninterpreted function of the reference (immutable inputs only)."""
  t = pb_field_type(eng, base.cls, attr)
  if t is None:
    c = eng.th_ref_fields.get((base.cls, attr)) if hasattr(eng, "th_ref_fields") else None
    if c is None:
      return FuncV("builtin_method", attr, selfv=base)
    t = parse_type(c)
  if isinstance(t, tuple) and t[0] == "replist":
    raise_unsupported(f"repeated field {base.cls}.{attr} read directly (use the util.* contracts)")
  name = f"fld.{base.cls}.{attr}"
  if t == "bytes":
    fl = z3.Function(name + ".len", V.RefSort, I)
    fv = z3.Function(name + ".val", V.RefSort, I)
    ln, vl = fl(base.term), fv(base.term)
    st.assume(ln >= 0, vl >= 0, vl < t_pow2(eng, st, 8 * ln))
    return BytesV(ln, vl)
  if t == "str":
    return StrV(z3.Function(name, V.RefSort, V.StrSort)(base.term))
  if isinstance(t, tuple) and t[0] == "ref" and t[1] in MUTABLE_MESSAGES:
    # mutable sub-message (test_info): a heap record in an arbitrary well-formed state, one per reference term
    cache = st.__dict__.setdefault("ref_recs", {})
    key = (z3.simplify(base.term).sexpr(), attr)
    if key not in cache:
      p = fresh_rec(eng, st, ("rec", t[1], None), f"{base.cls}.{attr}")
      cache[key] = p
      for inv in MUTABLE_MESSAGES[t[1]]:
        from .engine import Frame
        fr = Frame({"ti": p}, None, st.frame.module, fname="type-invariant")
        st.frames.append(fr)
        st.spec_depth += 1
        try:
          st.assume(eng.truthy(st, eng.ev(ast.parse(inv, mode="eval").body, st)))
        finally:
          st.spec_depth -= 1
          st.frames.pop()
      eng.used_theories.add(f"type invariant of {t[1]} assumed for input artifacts: " + "; ".join(MUTABLE_MESSAGES[t[1]]))
    return cache[key]
  if isinstance(t, tuple) and t[0] == "ref":
    return Ref(z3.Function(name, V.RefSort, V.RefSort)(base.term), t[1])
  f = z3.Function(name, V.RefSort, V.sort_of(t))
  return f(base.term)


# messages whose content the library mutates, with the representation invariants assumed of incoming artifacts
MUTABLE_MESSAGES = {"TestInfo": ["wf_results(ti)", "wf_info(ti)",
                                 "forall(j, 0, len(ti.test_results), ti.test_results[j].severity >= 0)"]}


def ref_setattr(eng, st, base, attr, v, node):
  raise_unsupported(f"write to field {attr} of opaque reference {base.cls}")


def ref_contains(eng, st, cont, item):
  """`item in <opaque container>`: an uninterpreted membership predicate of (container, item)."""
  if isinstance(item, (str, StrV)):
    f = z3.Function("member_str", V.RefSort, V.StrSort, B)
    return f(cont.term, str_term(eng, st, item))
  if is_int_like(item):
    f = z3.Function("member_int", V.RefSort, I, B)
    return f(cont.term, to_z3(item))
  if isinstance(item, tuple) and len(item) == 2:
    x, y = [V.coerce(("opt", "int"), c) for c in item]
    f = z3.Function("member_point", V.RefSort, B, I, B, I, B)
    m = f(cont.term, to_z3(x.isnone), to_z3(x.val), to_z3(y.isnone), to_z3(y.val))
    # keys of the point map are public points (pairs of ints): infinity (None, None) is never a member
    st.assume(z3.Implies(m, z3.And(z3.Not(to_z3(x.isnone)), z3.Not(to_z3(y.isnone)))))
    return m
  raise_unsupported("membership in opaque reference")


PM_HAS = z3.Function("spec.pm_has", V.RefSort, I, I, I, B)


def ref_index(eng, st, base, idx, node):
  """pks[point] for the abstract point -> [signature indexes] map (ref:PointMap): a list of ints each of which is
  registered under that point (ghost relation pm_has(map, px, py, index))."""
  if base.cls == "PointMap" and isinstance(idx, tuple) and len(idx) == 2:
    eng.implicit(st, "KeyError", ref_contains(eng, st, base, idx), node, "point not in map")
    x, y = [eng.need_int(st, c, node) for c in idx]
    lst = eng.fresh_heap(st, "list[int]", "pks_entry")
    o = st.deref(lst)
    j = z3.Int(V.fresh_name("pj"))
    st.assume(z3.ForAll([j], z3.Implies(z3.And(j >= 0, j < to_z3(o.length)),
                                        PM_HAS(base.term, to_z3(x), to_z3(y), z3.Select(o.rep, j)))))
    return lst
  raise_unsupported("subscript of opaque reference")


def rec_attr(eng, st, ptr, o, attr):
  return None


def rec_index(eng, st, ptr, o, idx, node):
  raise_unsupported("subscript of record")


def lift(eng, st, t, v):
  """Converts concrete str/bytes into their symbolic representation for storage into arrays."""
  t = parse_type(t)
  if t == "str" and isinstance(v, str):
    return StrV(str_term(eng, st, v))
  if t == "bytes" and isinstance(v, bytes):
    return bytes_val(v)
  return V.coerce(t, v)


def msg_elem_fields(eng, cls):
  """Scalar fields of a protobuf message (used for repeated-message struct-of-arrays)."""
  enums, messages = proto(eng)
  out = {}
  for fname, (ft, rep) in messages[cls].items():
    if rep:
      continue
    if ft in PB_SCALAR:
      out[fname] = PB_SCALAR[ft]
    elif ft in enums:
      out[fname] = "int"
  return out


def fresh_rec(eng, st, t, name):
  if t[2] is not None:
    fields = {k: eng.fresh_heap(st, ft, f"{name}.{k}") for k, ft in t[2].items()}
    return st.alloc(HRec(t[1], fields))
  cls = t[1]
  enums, messages = proto(eng)
  if cls not in messages:
    raise_unsupported(f"unknown message {cls}")
  fields = {}
  for fname, (ft, rep) in messages[cls].items():
    nm = f"{name}.{fname}"
    if rep and ft in messages:
      ef = msg_elem_fields(eng, ft)
      ln = z3.Int(V.fresh_name(nm + ".len"))
      st.assume(ln >= 0)
      fields[fname] = st.alloc(HRecList("pb2." + ft, ef, {k: V.fresh_rep(et, f"{nm}.{k}") for k, et in ef.items()}, ln))
    elif rep:
      fields[fname] = eng.fresh_heap(st, ("list", PB_SCALAR.get(ft, "int")), nm)
    elif ft in PB_SCALAR:
      fields[fname] = eng.fresh_heap(st, PB_SCALAR[ft], nm)
    elif ft in enums:
      fields[fname] = eng.fresh_heap(st, "int", nm)
    elif ft in messages:
      fields[fname] = fresh_rec(eng, st, ("rec", ft, None), nm)
    else:
      fields[fname] = Opaque(nm)
  return st.alloc(HRec("pb2." + cls, fields))


def construct(eng, st, f, args, kwargs, node):
  if f.name.startswith("pb2."):
    cls = f.name[4:]
    enums, messages = proto(eng)
    fields = {}
    for fname, (ft, rep) in messages[cls].items():
      if rep:
        fields[fname] = st.alloc(HList(items=[]))
      elif ft in PB_SCALAR:
        fields[fname] = {"bytes": b"", "str": "", "bool": False, "int": 0}[PB_SCALAR[ft]]
      elif ft in enums:
        fields[fname] = 0
      else:
        fields[fname] = Opaque(f"unset submessage {fname}")
    for k, v in kwargs.items():
      if k not in fields:
        eng.implicit(st, "ValueError", False, node, f"no field {k}")
      fields[k] = v
    return st.alloc(HRec("pb2." + cls, fields))
  # repo class: run __init__ if it has a contract or is inlinable
  from . import contracts as C
  rel = f.module.relpath
  cls = f"{rel}::{f.name}"
  init = eng.find_method(cls, "__init__")
  obj = st.alloc(HRec(cls, {}))
  if init is not None:
    fv = FuncV("method", init[1], node=init[2], selfv=obj, module=init[0])
    c = C.REGISTRY.get(f"{init[0].relpath}::{init[1]}")
    if c is not None and not c.inline:
      # constructor under contract: the fields it declares start as arbitrary values of their types (the contract's
      # postconditions are then assumed about them)
      o = st.deref(obj)
      for fname, ft in c.self_fields.items():
        o.fields[fname] = eng.fresh_heap(st, ft, f"{f.name}.{fname}")
      eng.apply_contract(st, c, fv, args, kwargs, node)
    else:
      eng.inline(st, fv, [obj] + list(args), kwargs, node)
  return obj


# ---------------------------------------------------------------------------------------------------------------------
# builtins


def call_builtin(eng, st, name, args, kwargs, node):
  from .engine import Unsupported, Undecidable
  if name == "len":
    return length_of(eng, st, args[0], node)
  if name == "range":
    xs = [eng.need_int(st, a, node) for a in args]
    if all(isinstance(x, int) for x in xs):
      return range(*xs)
    lo, hi, step = (0, xs[0], 1) if len(xs) == 1 else ((xs[0], xs[1], 1) if len(xs) == 2 else xs)
    return ("$range", lo, hi, step)
  if name == "abs":
    x = eng.need_int(st, args[0], node)
    return abs(x) if isinstance(x, (int, float)) else z3.If(x >= 0, x, -x)
  if name in ("min", "max"):
    xs = args
    if len(args) == 1 and isinstance(args[0], Ptr) and isinstance(st.deref(args[0]), HList) and st.deref(args[0]).symbolic:
      # min/max of a symbolic list: a fresh value that bounds every element and is attained (empty -> ValueError)
      o = st.deref(args[0])
      eng.implicit(st, "ValueError", to_z3(o.length) > 0, node, "min/max of empty sequence")
      t = parse_type(o.elem_t)
      if t not in ("int", "real"):
        raise Unsupported("min/max of a symbolic list of non-numbers")
      m = z3.Int(V.fresh_name(name)) if t == "int" else z3.Real(V.fresh_name(name))
      j = z3.Int(V.fresh_name("mj"))
      w = z3.Int(V.fresh_name("mw"))
      e = z3.Select(o.rep, j)
      st.assume(z3.ForAll([j], z3.Implies(z3.And(j >= 0, j < to_z3(o.length)), (m <= e) if name == "min" else (m >= e))),
                w >= 0, w < to_z3(o.length), z3.Select(o.rep, w) == m)
      return m
    if len(args) == 1:
      xs = eng.iter_concrete(st, args[0])
    xs = [eng.need_int(st, a, node) for a in xs]
    if not xs:
      eng.implicit(st, "ValueError", False, node, "min/max of empty sequence")
    r = xs[0]
    for x in xs[1:]:
      if isinstance(r, int) and isinstance(x, int):
        r = min(r, x) if name == "min" else max(r, x)
      else:
        r = z3.If(to_z3(x) < to_z3(r), to_z3(x), to_z3(r)) if name == "min" else z3.If(
            to_z3(x) > to_z3(r), to_z3(x), to_z3(r))
    return r
  if name == "divmod":
    x, y = eng.need_int(st, args[0], node), eng.need_int(st, args[1], node)
    return eng.divmod_terms(st, x, y, node)
  if name == "pow":
    if len(args) == 3:
      a, e, m = [eng.need_int(st, x, node) for x in args]
      eng.implicit(st, "ValueError", to_z3(m) != 0 if not isinstance(m, int) else m != 0, node, "pow() 3rd arg 0")
      return t_powmod(eng, st, a, e, m)
    return power(eng, st, eng.need_int(st, args[0], node), eng.need_int(st, args[1], node), node)
  if name == "int":
    if not args:
      return 0
    a = args[0]
    if len(args) == 2 or isinstance(a, (str, StrV)):
      if isinstance(a, str) and (len(args) == 1 or isinstance(args[1], int)):
        return int(a, *args[1:])
      return str_to_int(eng, st, a, args[1] if len(args) > 1 else 10, node)
    if isinstance(a, float):
      return int(a)
    if isinstance(a, V.SqrtV):
      eng.used_theories.add("int(math.sqrt(x)) for an int x: r >= 0; x >= 1 ==> 1 <= r <= x (holds whatever the rounding)")
      r = z3.Int(V.fresh_name("int_sqrt"))
      st.assume(r >= 0, z3.Implies(a.arg >= 1, z3.And(r >= 1, r <= a.arg)), z3.Implies(a.arg <= 0, r == 0))
      return r
    if isinstance(a, Opaque):
      # int() of an unmodelled (float) value: some integer -- havocked, listed as abstracted
      eng.abstracted.add(f"int(<{a.why}>) at L{getattr(node, 'lineno', 0)} havocked to an arbitrary int")
      return z3.Int(V.fresh_name("int_of_abstracted"))
    return eng.need_int(st, a, node)
  if name == "bool":
    return eng.truthy(st, args[0]) if args else False
  if name == "float":
    if args and isinstance(args[0], (int, float)) and not isinstance(args[0], bool):
      try:
        return float(args[0])
      except OverflowError:
        pass
    return Opaque("float()")
  if name in ("list", "tuple"):
    if not args:
      return st.alloc(HList(items=[])) if name == "list" else ()
    if isinstance(args[0], Opaque):
      return Opaque(f"{name}({args[0].why})")
    return to_sequence(eng, st, args[0], name, node)
  if name in ("set", "frozenset"):
    if not args:
      return st.alloc(HSet(items={}))
    return to_set(eng, st, args[0], node)
  if name == "dict":
    if not args and not kwargs:
      return st.alloc(HDict(items={}))
    if args:
      return to_dict(eng, st, args[0], node)
    return st.alloc(HDict(items={k: v for k, v in kwargs.items()}))
  if name == "enumerate":
    start = args[1] if len(args) > 1 else kwargs.get("start", 0)
    return ("$enumerate", args[0], start)
  if name == "zip":
    return ("$zip",) + tuple(args)
  if name == "reversed":
    xs = eng.iter_concrete(st, args[0])
    return tuple(reversed(xs))
  if name == "sorted":
    xs = eng.iter_concrete(st, args[0])
    if all(isinstance(x, (int, str)) for x in xs):
      return st.alloc(HList(items=sorted(xs)))
    raise Unsupported("sorted() on symbolic items")
  if name == "sum":
    if isinstance(args[0], Opaque):
      return Opaque("sum(" + args[0].why + ")")
    seq = as_iterable(eng, st, args[0], node)
    if seq[0] != "concrete":
      raise Unsupported("sum over symbolic sequence")
    r = args[1] if len(args) > 1 else 0
    for x in seq[1]:
      r = eng.binop(st, ast.Add(), r, x, node)
    return r
  if name in ("any", "all"):
    seq = as_iterable(eng, st, args[0], node)
    if seq[0] != "concrete":
      raise Unsupported("any/all over symbolic sequence")
    ts = [eng.truthy(st, x) for x in seq[1]]
    return eng.or_(*ts) if name == "any" else eng.and_(*ts)
  if name == "isinstance":
    return isinstance_(eng, st, args[0], node.args[1])
  if name == "str":
    if isinstance(args[0], (int, str)) and not isinstance(args[0], bool):
      return str(args[0])
    return str_of(eng, st, args[0], node)
  if name == "format":
    return format_(eng, st, args[0], args[1] if len(args) > 1 else "", node)
  if name == "hex":
    x = eng.need_int(st, args[0], node)
    if isinstance(x, int):
      return hex(x)
    return format_(eng, st, x, "#x", node)
  if name in ("bytes", "bytearray"):
    return make_bytes(eng, st, name, args, node)
  if name == "print":
    return None
  if name == "map":
    f = args[0]
    seq = as_iterable(eng, st, args[1], node)
    if seq[0] == "concrete":
      return tuple(eng.call(st, f, [x], {}, node) for x in seq[1])
    if isinstance(f, FuncV) and f.kind == "lib" and f.name == "gmpy2.mpz":
      return args[1]
    raise Unsupported("map over symbolic sequence")
  if name == "round":
    if all(isinstance(a, (int, float)) for a in args):
      return round(*args)
    return Opaque("round()")
  if name == "super":
    fr = st.frames[-1]
    return ("$super", fr.env.get("self"), fr.cls)
  if name == "id":
    return Opaque("id()")
  raise Unsupported(f"builtin {name}")


def isinstance_(eng, st, v, tnode):
  tn = ast.unparse(tnode)
  names = [x.strip() for x in tn.strip("()").split(",")]
  def one(n):
    if n == "int":
      return is_int_like(v) or is_bool_like(v)
    if n == "float":
      return isinstance(v, float) or V.is_real_like(v)
    if n == "list":
      return isinstance(v, Ptr) and isinstance(st.deref(v), HList)
    if n == "tuple":
      return isinstance(v, tuple)
    if n == "str":
      return isinstance(v, (str, StrV))
    if n in ("bytes", "bytearray"):
      return isinstance(v, (bytes, BytesV))
    raise_unsupported(f"isinstance(_, {n})")
  if isinstance(v, (Opt, Opaque)):
    raise_unsupported("isinstance on optional/abstracted value")
  return any(one(n) for n in names)


def length_of(eng, st, v, node):
  if isinstance(v, (tuple, str, bytes, range)):
    return len(v)
  if isinstance(v, Opt):
    eng.implicit(st, "TypeError", eng.not_(v.isnone), node, "len(None)")
    return length_of(eng, st, v.val, node)
  if isinstance(v, BytesV):
    return v.length
  if isinstance(v, Ptr):
    o = st.deref(v)
    if isinstance(o, HList):
      return len(o.items) if not o.symbolic else o.length
    if isinstance(o, HDict) and not o.symbolic:
      return len(o.items)
    if isinstance(o, HSet) and o.items is not None:
      return len(o.items)
    if isinstance(o, HDict):
      return dict_len(eng, st, o)
    if isinstance(o, HRecList):
      return o.length
  if isinstance(v, Opaque):
    return Opaque("len(" + v.why + ")")
  if isinstance(v, StrV):
    return str_len(eng, st, v)
  if isinstance(v, tuple) and v and v[0] == "$range":
    return iter_len(eng, st, ("range", v[1], v[2], v[3]))
  if v is None:
    eng.implicit(st, "TypeError", False, node, "len(None)")
  raise_unsupported(f"len of {type(v).__name__}")


# ---------------------------------------------------------------------------------------------------------------------
# lists


def _norm_index(eng, st, n, idx, node, what="list index out of range"):
  """Python index normalisation with IndexError obligation; n is the length (int or term)."""
  i = eng.need_int(st, idx, node)
  if isinstance(i, int) and isinstance(n, int):
    eng.implicit(st, "IndexError", -n <= i < n, node, what)
    return i + n if i < 0 else i
  ii, nn = to_z3(i), to_z3(n)
  eng.implicit(st, "IndexError", z3.And(-nn <= ii, ii < nn), node, what)
  if isinstance(i, int):
    return i if i >= 0 else nn + i
  if st.spec:
    return ii   # contract language: symbolic indices are taken as non-negative positions (no wrap-around)
  if eng.known(st, ii >= 0):
    return ii
  return z3.If(ii < 0, ii + nn, ii)


def list_get(eng, st, o, idx, node):
  n = len(o.items) if not o.symbolic else o.length
  i = _norm_index(eng, st, n, idx, node)
  if not o.symbolic:
    if isinstance(i, int):
      return o.items[i]
    return tuple_sym_index(eng, st, tuple(o.items), i, node, checked=True)
  return V.select_rep(o.elem_t, o.rep, to_z3(i))


def tuple_sym_index(eng, st, items, i, node, checked=False):
  """items[i] for a symbolic index into a concrete-length sequence: if-then-else chain over a joined type."""
  n = len(items)
  if isinstance(items, (str, bytes)):
    items = tuple(items)
  if not checked:
    i = _norm_index(eng, st, n, i, node)
  if n == 0:
    from .engine import Infeasible
    if st.spec:
      raise_unsupported("specification indexes an empty sequence outside a guard")
    raise Infeasible()
  memo = eng.__dict__.setdefault("_ite_memo", {})
  key = None
  if all(isinstance(x, (bool, int)) for x in items):
    key = (tuple(items), to_z3(i).get_id())
    if key in memo:
      return memo[key][1]
  t = None
  for it in items:
    ti = eng.value_type(st, it)
    t = ti if t is None else V.join_types(t, ti)
  vals = [V.coerce(t, it) for it in items]
  r = _ite_chain(t, vals, to_z3(i))
  if key is not None:
    memo[key] = (to_z3(i), r)
  return r


def _ite_chain(t, vals, i):
  t = parse_type(t)
  if t in ("int", "bool", "real"):
    r = to_z3(vals[-1])
    for k in range(len(vals) - 2, -1, -1):
      r = z3.If(i == k, to_z3(vals[k]), r)
    return r
  if t == "none":
    return None
  if t[0] == "opt":
    return Opt(_ite_chain("bool", [v.isnone for v in vals], i), _ite_chain(t[1], [v.val for v in vals], i))
  if t[0] == "tuple":
    return tuple(_ite_chain(ti, [v[j] for v in vals], i) for j, ti in enumerate(t[1]))
  if t[0] == "ref":
    r = vals[-1].term
    for k in range(len(vals) - 2, -1, -1):
      r = z3.If(i == k, vals[k].term, r)
    return Ref(r, t[1])
  raise_unsupported(f"symbolic index into sequence of {t}")


def to_symbolic_list(eng, st, o, elem_t=None):
  """Converts a concrete-length list into array representation (same contents)."""
  if o.symbolic:
    return
  t = parse_type(elem_t) if elem_t else None
  if t is None:
    for it in o.items:
      ti = eng.value_type(st, it)
      t = ti if t is None else V.join_types(t, ti)
    t = t or "int"
  rep = V.fresh_rep(t, "lst")
  for k, it in enumerate(o.items):
    rep = V.store_rep(t, rep, z3.IntVal(k), V.coerce(t, it))
  o.length, o.elem_t, o.rep, o.items = len(o.items), t, rep, None


def list_set(eng, st, o, idx, v, node):
  n = len(o.items) if not o.symbolic else o.length
  i = _norm_index(eng, st, n, idx, node, "list assignment index out of range")
  if not o.symbolic and isinstance(i, int):
    o.items[i] = v
    return
  if not o.symbolic:
    t = None
    for it in list(o.items) + [v]:
      ti = eng.value_type(st, it)
      t = ti if t is None else V.join_types(t, ti)
    to_symbolic_list(eng, st, o, t)
  try:
    vv = V.coerce(o.elem_t, v)
  except TypeError:
    raise_unsupported("list element type changes under symbolic store")
  o.rep = V.store_rep(o.elem_t, o.rep, to_z3(i), vv)


def list_append(eng, st, o, v, node):
  if not o.symbolic:
    o.items.append(v)
    return
  vv = V.coerce(o.elem_t, v)
  o.rep = V.store_rep(o.elem_t, o.rep, to_z3(o.length), vv)
  o.length = o.length + 1


def list_extend(eng, st, ptr, rhs, node):
  o = st.deref(ptr)
  if isinstance(o, HList):
    xs = eng.iter_concrete(st, rhs)
    for x in xs:
      list_append(eng, st, o, x, node)
    return
  raise_unsupported("+= on heap object")


def seq_binop(eng, st, op, a, b, node):
  if isinstance(op, ast.Mult):
    seq, n = (a, b) if isinstance(a, (Ptr, tuple, str, bytes)) else (b, a)
    n = eng.need_int(st, n, node)
    if isinstance(seq, Ptr):
      o = st.deref(seq)
      if isinstance(o, HList) and not o.symbolic:
        if isinstance(n, int):
          return st.alloc(HList(items=list(o.items) * n))
        if len(o.items) == 1:
          t = eng.value_type(st, o.items[0])
          if t == "none":
            t = ("opt", "int")
          rep = _const_rep(t, V.coerce(t, o.items[0]))
          ln = z3.If(n >= 0, n, 0)
          return st.alloc(HList(items=None, length=ln, elem_t=t, rep=rep))
    if isinstance(seq, tuple) and not isinstance(n, int) and len(seq) == 1:
      raise_unsupported("tuple * symbolic")
    raise_unsupported("sequence repetition")
  if isinstance(op, ast.Add):
    oa = st.deref(a) if isinstance(a, Ptr) else None
    ob = st.deref(b) if isinstance(b, Ptr) else None
    if isinstance(oa, HList) and isinstance(ob, HList) and not oa.symbolic and not ob.symbolic:
      return st.alloc(HList(items=list(oa.items) + list(ob.items)))
  if isinstance(op, (ast.BitOr, ast.BitAnd, ast.Sub)):
    oa = st.deref(a) if isinstance(a, Ptr) else None
    ob = st.deref(b) if isinstance(b, Ptr) else None
    if isinstance(oa, HSet) and isinstance(ob, HSet) and oa.items is not None and ob.items is not None:
      if isinstance(op, ast.BitOr):
        d = dict(oa.items)
        d.update(ob.items)
      elif isinstance(op, ast.BitAnd):
        d = {k: v for k, v in oa.items.items() if k in ob.items}
      else:
        d = {k: v for k, v in oa.items.items() if k not in ob.items}
      return st.alloc(HSet(items=d))
  raise_unsupported(f"binary operator {type(op).__name__} on heap objects")


def _const_rep(t, v):
  t = parse_type(t)
  if t in ("int", "bool", "real"):
    return z3.K(I, to_z3(v))
  if t == "str":
    return z3.K(I, v.term)
  if t == "none":
    return None
  if t[0] == "opt":
    return ("opt", z3.K(I, to_z3(v.isnone)), _const_rep(t[1], v.val))
  if t[0] == "tuple":
    return ("tuple", tuple(_const_rep(ti, vi) for ti, vi in zip(t[1], v)))
  if t[0] == "ref":
    return z3.K(I, v.term)
  raise_unsupported(f"constant list of {t}")


def slice_(eng, st, base, lo, hi, step, node):
  if isinstance(base, (tuple, str, bytes)):
    if all(x is None or isinstance(x, int) for x in (lo, hi, step)):
      return base[slice(lo, hi, step)]
  if isinstance(base, Ptr):
    o = st.deref(base)
    if isinstance(o, HList) and not o.symbolic and all(x is None or isinstance(x, int) for x in (lo, hi, step)):
      return st.alloc(HList(items=o.items[slice(lo, hi, step)]))
    if isinstance(o, HList) and o.symbolic and step is None and lo is None and hi is None:
      return st.alloc(o.clone())
    if isinstance(o, HList) and step is None and lo is None and hi is not None:
      to_symbolic_list(eng, st, o)
      h = to_z3(eng.need_int(st, hi, node))
      n = to_z3(o.length)
      h2 = z3.If(h < 0, z3.If(h + n < 0, 0, h + n), z3.If(h > n, n, h))
      return st.alloc(HList(items=None, length=h2, elem_t=o.elem_t, rep=o.rep))
    if isinstance(o, HList) and step is None and lo is not None:
      # xs[lo:hi] of a symbolic list: a NEW list of length max(0, hi' - lo') whose element t is xs[lo' + t]
      # (lo', hi' = the bounds clamped to [0, len] after adding len to negative ones: Python's slice semantics)
      to_symbolic_list(eng, st, o)
      n = to_z3(o.length)
      clamp = lambda v: z3.If(v < 0, z3.If(v + n < 0, 0, v + n), z3.If(v > n, n, v))
      l2 = clamp(to_z3(eng.need_int(st, lo, node)))
      h2 = n if hi is None else clamp(to_z3(eng.need_int(st, hi, node)))
      return st.alloc(HList(items=None, length=z3.If(h2 > l2, h2 - l2, 0), elem_t=o.elem_t, rep=_shift_rep(o.rep, l2)))
  if isinstance(base, (BytesV, bytes)):
    return bytes_slice(eng, st, base, lo, hi, step, node)
  if isinstance(base, Opaque):
    return Opaque(base.why + "[:]")
  raise_unsupported("slice")


def _shift_rep(rep, off):
  """Array view t -> rep[t + off], componentwise for optional / tuple element representations."""
  if rep is None:
    return None
  if isinstance(rep, tuple):
    if rep[0] == "opt":
      return ("opt", _shift_rep(rep[1], off), _shift_rep(rep[2], off))
    if rep[0] == "tuple":
      return ("tuple", tuple(_shift_rep(r, off) for r in rep[1]))
    raise_unsupported("slice of a list with this element representation")
  t = z3.Int(V.fresh_name("slice_t"))
  return z3.Lambda([t], z3.Select(rep, t + off))


def retype_list(eng, st, o, decl):
  """Gives a freshly created list ([None] * n or []) its declared element type."""
  t = parse_type(decl)
  if not (isinstance(t, tuple) and t[0] == "list"):
    return
  et = t[1]
  if not o.symbolic:
    if all(x is None for x in o.items) and len(o.items) <= 1:
      if len(o.items) == 0:
        o.items, o.length, o.elem_t, o.rep = None, 0, et, V.fresh_rep(et, "typed")
      return
    return
  # only a list that IS [None] * n (constant-None representation) is retyped; any other list assigned to the variable
  # (a callee's result, a copy) keeps its contents
  if not (isinstance(o.rep, tuple) and o.rep[0] == "opt" and z3.is_K(o.rep[1]) and z3.is_true(o.rep[1].arg(0))):
    return
  # symbolic list of Nones: constant-None representation of the declared optional type
  if isinstance(o.rep, tuple) and o.rep[0] == "opt" and isinstance(et, tuple) and et[0] == "opt":
    o.elem_t = et
    o.rep = _const_rep(et, Opt(True, V.default_of(et[1])))
  elif isinstance(o.rep, tuple) and o.rep[0] == "opt" and not (isinstance(et, tuple) and et[0] == "opt"):
    # [None] * n declared with a non-optional element type (slots are written before they are read): the unwritten
    # slots are modelled as unspecified values of the declared type
    eng.abstracted.add(f"list declared {decl} created as [None] * n: unwritten slots modelled as unspecified values of the "
                       "element type (a read before the first write is not modelled)")
    o.elem_t = et
    o.rep = V.fresh_rep(et, "slots")


def slice_assign(eng, st, base, sl, v, node):
  """ba[lo:hi] = <bytes of length hi-lo>: contents havocked to arbitrary bytes, length unchanged.  The equal-length
  side condition is an obligation of kind model-pre (if it fails the model does not apply: undecided, not a violation)."""
  if not (isinstance(base, Ptr) and isinstance(st.deref(base), HList)) or sl.step is not None:
    raise_unsupported("slice assignment")
  o = st.deref(base)
  lo = eng.need_int(st, eng.ev(sl.lower, st), node) if sl.lower else 0
  hi = eng.need_int(st, eng.ev(sl.upper, st), node) if sl.upper else (len(o.items) if not o.symbolic else o.length)
  vl = length_of(eng, st, v, node)
  n = len(o.items) if not o.symbolic else o.length
  ok = z3.And(to_z3(lo) >= 0, to_z3(lo) <= to_z3(hi), to_z3(hi) <= to_z3(n), to_z3(hi) - to_z3(lo) == to_z3(vl))
  eng.emit(st, "model-pre", f"{eng.cur.qual}/model-pre@{eng.loc(node)}:slice assignment keeps the length", ok,
           clause="0 <= lo <= hi <= len and hi - lo == len(value)", line=node.lineno)
  st.assume(ok)
  to_symbolic_list(eng, st, o, "int")
  eng.abstracted.add(f"bytearray slice assignment at L{node.lineno}: contents havocked to arbitrary bytes (length kept)")
  o.rep = V.fresh_rep("int", "ba")
  j = z3.Int(V.fresh_name("bj"))
  st.assume(z3.ForAll([j], z3.And(z3.Select(o.rep, j) >= 0, z3.Select(o.rep, j) < 256)))


def slist_contains(eng, st, o, item):
  j = z3.Int(V.fresh_name("j"))
  e = V.select_rep(o.elem_t, o.rep, j)
  return z3.Exists([j], z3.And(j >= 0, j < to_z3(o.length), to_z3(eng.eq(st, e, item))))


def to_sequence(eng, st, v, kind, node):
  if isinstance(v, Ptr):
    o = st.deref(v)
    if isinstance(o, HList):
      if kind == "list":
        return st.alloc(o.clone())
      if not o.symbolic:
        return tuple(o.items)
    if isinstance(o, (HSet, HDict)) and (o.items is not None):
      items = [unhash(k) for k in o.items]
      return st.alloc(HList(items=items)) if kind == "list" else tuple(items)
  seq = as_iterable(eng, st, v, node)
  if seq[0] == "concrete":
    return st.alloc(HList(items=list(seq[1]))) if kind == "list" else tuple(seq[1])
  if seq[0] == "range" and kind == "list":
    n = iter_len(eng, st, seq)
    j = z3.Int(V.fresh_name("j"))
    rep = z3.Lambda([j], to_z3(seq[1]) + j * to_z3(seq[3]))
    return st.alloc(HList(items=None, length=n, elem_t="int", rep=rep))
  raise_unsupported(f"{kind}() of symbolic iterable")


# ---------------------------------------------------------------------------------------------------------------------
# sets / dicts with concrete structure


class HK:
  """Hashable wrapper for symbolic keys of concrete-structure dicts/sets (identity by z3 term text)."""

  def __init__(self, v, key):
    self.v, self.key = v, key

  def __hash__(self):
    return hash(self.key)

  def __eq__(self, o):
    return isinstance(o, HK) and o.key == self.key


def hashable(eng, st, k):
  if isinstance(k, (int, str, bytes, bool)) or k is None:
    return k
  if isinstance(k, tuple) and all(isinstance(x, (int, str, bytes, bool)) or x is None for x in k):
    return k
  return HK(k, _key_text(k))


def _key_text(k):
  if is_sym(k):
    return k.sexpr()
  if isinstance(k, tuple):
    return "(" + ",".join(_key_text(x) for x in k) + ")"
  if isinstance(k, Opt):
    return f"opt({_key_text(k.isnone)},{_key_text(k.val)})"
  if isinstance(k, (StrV, Ref)):
    return k.term.sexpr()
  return repr(k)


def unhash(k):
  return k.v if isinstance(k, HK) else k


def make_set_items(eng, st, items):
  d = {}
  for it in items:
    d[hashable(eng, st, it)] = it
  return d


def _all_concrete_keys(d):
  return all(not isinstance(k, HK) for k in d)


def set_contains(eng, st, o, item):
  if o.items is not None:
    hk = hashable(eng, st, item)
    if not isinstance(hk, HK) and _all_concrete_keys(o.items):
      return hk in o.items
    return eng.or_(*[eng.eq(st, item, v) for v in o.items.values()])
  if o.mem is not None:
    return o.mem(item)
  raise_unsupported("membership in symbolic set")


def havoc_set(eng, st, o, name):
  f = z3.Function(V.fresh_name(name + ".mem"), I, B)
  o.items = None
  o.mem = lambda item, f=f: f(to_z3(eng.need_int(st, item)))


ITER_HAS = z3.Function("spec.iter_has", V.RefSort, I, B)
SETSTR = z3.Function("str_of_hexset", z3.ArraySort(I, B), V.StrSort)
SETDEC = z3.Function("hexset_of_str", V.StrSort, z3.ArraySort(I, B))


def _mem_array(st, mem):
  """An array constant that IS the membership predicate (defined pointwise; no lambda term in the query)."""
  x = z3.Int(V.fresh_name("sx"))
  a = z3.Const(V.fresh_name("intset"), z3.ArraySort(I, B))
  st.assume(z3.ForAll([x], z3.Select(a, x) == mem(x)))
  return a


def to_set(eng, st, v, node):
  if isinstance(v, Ref) and v.cls == "IntIterable":
    # an iterable of ints handed in by a caller: its element set as the ghost relation iter_has(ref, x)
    t = v.term
    return st.alloc(HSet(items=None, mem=lambda item, t=t: ITER_HAS(t, to_z3(eng.need_int(st, item)))))
  seq = as_iterable(eng, st, v, node)
  if seq[0] == "concrete":
    return st.alloc(HSet(items=make_set_items(eng, st, seq[1])))
  raise_unsupported("set() of symbolic iterable")


def to_dict(eng, st, v, node):
  if isinstance(v, Ptr) and isinstance(st.deref(v), HDict):
    return st.alloc(st.deref(v).clone())
  seq = as_iterable(eng, st, v, node)
  if seq[0] == "concrete":
    d = {}
    for kv in seq[1]:
      k, val = eng.unpack(st, kv, 2, node)
      d[hashable(eng, st, k)] = val
    return st.alloc(HDict(items=d))
  if isinstance(v, Opaque):
    return Opaque("dict(" + v.why + ")")
  raise_unsupported("dict() of symbolic iterable")


def fresh_dict(eng, st, t, name):
  kt, vt = parse_type(t[1]), parse_type(t[2])
  if kt != "int":
    raise_unsupported("symbolic dict with non-int keys")
  return HDict(items=None, dom=z3.Array(V.fresh_name(name + ".dom"), I, B), val_t=vt, rep=V.fresh_rep(vt, name),
               nin=z3.Bool(V.fresh_name(name + ".has_none")), nval=_fresh_scalar(vt, name + ".none_val"))


def _fresh_scalar(vt, name):
  try:
    return V.fresh(vt, name)
  except TypeError:
    return None


def havoc_dict(eng, st, o, name, decl_t=None):
  if o.symbolic:
    vt = o.val_t
  elif decl_t is not None:
    vt = parse_type(decl_t)[2]
  else:
    vt = None
    for v in o.items.values():
      tv = eng.value_type(st, v)
      vt = tv if vt is None else V.join_types(vt, tv)
    if vt is None or any(isinstance(k, HK) or not isinstance(k, int) for k in o.items):
      raise_unsupported("havoc of dict needs a declared type (loop contract types=...)")
  o.items, o.dom, o.val_t, o.rep = None, z3.Array(V.fresh_name(name + ".dom"), I, B), vt, V.fresh_rep(vt, name)
  o.nin, o.nval = z3.Bool(V.fresh_name(name + ".has_none")), _fresh_scalar(vt, name + ".none_val")


def _dict_spec_view(eng, st, o):
  """Array view (dom, val_t, rep) of a concrete-structure dict with int keys, for specification expressions."""
  vt = None
  for v in o.items.values():
    tv = eng.value_type(st, v)
    vt = tv if vt is None else V.join_types(vt, tv)
  vt = vt or "int"
  dom = z3.K(I, z3.BoolVal(False))
  rep = V.fresh_rep(vt, "dview")
  for k, v in o.items.items():
    kk = to_z3(eng.need_int(st, unhash(k)))
    dom = z3.Store(dom, kk, z3.BoolVal(True))
    rep = V.store_rep(vt, rep, kk, V.coerce(vt, v))
  return dom, vt, rep


def dict_contains(eng, st, o, item):
  if not o.symbolic and st.spec and is_sym(item) and all(is_int_like(unhash(k)) for k in o.items):
    dom, vt, rep = _dict_spec_view(eng, st, o)
    return z3.Select(dom, to_z3(item))
  if not o.symbolic:
    hk = hashable(eng, st, item)
    if not isinstance(hk, HK) and _all_concrete_keys(o.items):
      return hk in o.items
    return eng.or_(*[eng.eq(st, item, unhash(k)) for k in o.items])
  if item is None:
    return o.nin
  if isinstance(item, Opt):      # None is a legal key: its own slot
    return eng.ite(item.isnone, o.nin, z3.Select(o.dom, to_z3(eng._int(item.val)))) \
        if not isinstance(item.isnone, bool) else (o.nin if item.isnone else z3.Select(o.dom, to_z3(eng._int(item.val))))
  return z3.Select(o.dom, to_z3(eng.need_int(st, item)))


def dict_get(eng, st, o, key, node):
  if not o.symbolic and st.spec and is_sym(key) and all(is_int_like(unhash(k)) for k in o.items):
    dom, vt, rep = _dict_spec_view(eng, st, o)
    return V.select_rep(vt, rep, to_z3(key))
  if not o.symbolic:
    hk = hashable(eng, st, key)
    if not isinstance(hk, HK) and _all_concrete_keys(o.items):
      eng.implicit(st, "KeyError", hk in o.items, node, "key not in dict")
      return o.items[hk]
    if hk in o.items:
      return o.items[hk]
    # symbolic key against concrete-structure dict: decide by branching
    for k, v in o.items.items():
      if eng.choose(st, eng.eq(st, key, unhash(k))):
        return v
    eng.implicit(st, "KeyError", False, node, "key not in dict")
  if key is None or isinstance(key, Opt):
    isn = True if key is None else key.isnone
    if o.nval is None and not (isinstance(isn, bool) and not isn):
      raise_unsupported("None key in a dict whose value type has no scalar model")
    if isinstance(isn, bool) and isn:
      eng.implicit(st, "KeyError", o.nin, node, "key None not in dict")
      return o.nval
    k = to_z3(eng._int(key.val))
    if isinstance(isn, bool):
      eng.implicit(st, "KeyError", z3.Select(o.dom, k), node, "key not in dict")
      return V.select_rep(o.val_t, o.rep, k)
    eng.implicit(st, "KeyError", z3.If(isn, to_z3(o.nin), z3.Select(o.dom, k)), node, "key not in dict")
    return eng.ite(isn, o.nval, V.select_rep(o.val_t, o.rep, k))
  k = to_z3(eng.need_int(st, key))
  eng.implicit(st, "KeyError", z3.Select(o.dom, k), node, "key not in dict")
  v = V.select_rep(o.val_t, o.rep, k)
  if not st.nofresh and "bytes" in str(o.val_t):
    # a value read from the map is a well-formed value of its type (bytes: length >= 0, 0 <= value < 256^length)
    st.assume(*V.type_constraints(o.val_t, v))
    eng._bytes_wf(st, v)
  return v


def dict_set(eng, st, o, key, v, node):
  if not o.symbolic:
    hk = hashable(eng, st, key)
    if (not isinstance(hk, HK) and _all_concrete_keys(o.items)) or hk in o.items:
      o.items[hk] = v
      return
    if not o.items and (is_int_like(key) or isinstance(key, Opt)):
      vt = eng.value_type(st, v)
      o.items, o.dom, o.val_t, o.rep = None, z3.K(I, z3.BoolVal(False)), vt, V.fresh_rep(vt, "dict")
      o.nin, o.nval = False, V.default_of(vt)
    else:
      raise_unsupported("symbolic key stored into concrete-structure dict")
  if key is None or isinstance(key, Opt):
    isn = True if key is None else key.isnone
    vv = V.coerce(o.val_t, v)
    if isinstance(isn, bool) and isn:
      o.nin, o.nval = True, vv
      return
    k = to_z3(eng._int(key.val))
    if isinstance(isn, bool):
      o.dom = z3.Store(o.dom, k, z3.BoolVal(True))
      o.rep = V.store_rep(o.val_t, o.rep, k, vv)
      return
    if o.val_t != "int":
      raise_unsupported("Optional key in a dict with non-int values")
    # one store, guarded by `key is None`
    o.nval = eng.ite(isn, vv, o.nval)
    o.nin = eng.or_(o.nin, isn)
    o.dom = z3.If(isn, o.dom, z3.Store(o.dom, k, z3.BoolVal(True)))
    o.rep = z3.If(isn, o.rep, z3.Store(o.rep, k, to_z3(vv)))
    return
  k = to_z3(eng.need_int(st, key))
  o.dom = z3.Store(o.dom, k, z3.BoolVal(True))
  o.rep = V.store_rep(o.val_t, o.rep, k, V.coerce(o.val_t, v))


def dict_len(eng, st, o):
  raise_unsupported("len of symbolic dict")


# ---------------------------------------------------------------------------------------------------------------------
# iteration


def as_iterable(eng, st, it, node):
  """Classifies an iterable: ("concrete", [items]) | ("range", lo, hi, step) | ("slist", HList) |
  ("enumerate", inner, start) | ("zip", [inners])."""
  if isinstance(it, (tuple,)) and it and isinstance(it[0], str) and it[0].startswith("$"):
    if it[0] == "$range":
      return ("range", it[1], it[2], it[3])
    if it[0] == "$enumerate":
      inner = as_iterable(eng, st, it[1], node)
      start = eng.need_int(st, it[2], node)
      if inner[0] == "concrete" and isinstance(start, int):
        return ("concrete", [(start + i, x) for i, x in enumerate(inner[1])])
      return ("enumerate", inner, start)
    if it[0] == "$zip":
      inners = [as_iterable(eng, st, x, node) for x in it[1:]]
      if all(i[0] == "concrete" for i in inners):
        return ("concrete", list(zip(*[i[1] for i in inners])))
      return ("zip", inners)
    if it[0] == "$items":
      o = it[1]
      return ("concrete", [(unhash(k), v) for k, v in o.items.items()])
  if isinstance(it, (tuple, range, str, bytes)):
    return ("concrete", list(it))
  if isinstance(it, Opt):
    eng.implicit(st, "TypeError", eng.not_(it.isnone), node, "None is not iterable")
    return as_iterable(eng, st, it.val, node)
  if isinstance(it, Ptr):
    o = st.deref(it)
    if isinstance(o, HList):
      return ("concrete", list(o.items)) if not o.symbolic else ("slist", o)
    if isinstance(o, HDict) and not o.symbolic:
      return ("concrete", [unhash(k) for k in o.items])
    if isinstance(o, HSet) and o.items is not None:
      return ("concrete", list(o.items.values()))
    if isinstance(o, HRecList):
      return ("reclist", it)
  if isinstance(it, BytesV):
    return ("bytesv", it)
  if isinstance(it, Opaque):
    from .engine import Undecidable
    raise Undecidable(f"iteration over abstracted value ({it.why})")
  if it is None:
    eng.implicit(st, "TypeError", False, node, "None is not iterable")
  raise_unsupported(f"iteration over {type(it).__name__}")


def iter_len(eng, st, seq):
  k = seq[0]
  if k == "concrete":
    return len(seq[1])
  if k == "range":
    lo, hi, step = seq[1], seq[2], seq[3]
    if not isinstance(step, int):
      raise_unsupported("symbolic range step")
    d = to_z3(hi) - to_z3(lo)
    if step == 1:
      return z3.If(d > 0, d, 0)
    if step == -1:
      return z3.If(-d > 0, -d, 0)
    if step > 0:
      return z3.If(d > 0, (d + step - 1) / step, 0)
    return z3.If(d < 0, (-d + (-step) - 1) / (-step), 0)
  if k == "slist":
    return seq[1].length
  if k == "enumerate":
    return iter_len(eng, st, seq[1])
  if k == "zip":
    ls = [to_z3(iter_len(eng, st, s)) for s in seq[1]]
    r = ls[0]
    for x in ls[1:]:
      r = z3.If(x < r, x, r)
    return r
  if k == "bytesv":
    return seq[1].length
  if k == "reclist":
    return st.deref(seq[1]).length
  raise_unsupported("iter_len")


def iter_item(eng, st, seq, k, node):
  kind = seq[0]
  if kind == "concrete":
    return tuple_sym_index(eng, st, tuple(seq[1]), k, node, checked=True)
  if kind == "range":
    return to_z3(seq[1]) + k * seq[3]
  if kind == "slist":
    return V.select_rep(seq[1].elem_t, seq[1].rep, k)
  if kind == "enumerate":
    return (to_z3(seq[2]) + k, iter_item(eng, st, seq[1], k, node))
  if kind == "zip":
    return tuple(iter_item(eng, st, s, k, node) for s in seq[1])
  if kind == "bytesv":
    return bytes_index(eng, st, seq[1], k, node, checked=True)
  if kind == "reclist":
    return ElemRef(seq[1], k)
  raise_unsupported("iter_item")


def iter_overlay(eng, st, seq, k, target):
  """Bindings visible to loop invariants at the head of iteration k: `_i` (iteration index) and, for range loops and
  enumerate, the loop variable itself (= the NEXT value to be processed)."""
  ov = {"_i": k}
  if seq[0] == "range" and isinstance(target, ast.Name):
    ov[target.id] = to_z3(seq[1]) + k * seq[3]
  if seq[0] == "enumerate" and isinstance(target, ast.Tuple) and isinstance(target.elts[0], ast.Name):
    ov[target.elts[0].id] = to_z3(seq[2]) + k
  return ov


def comprehension(eng, st, node, kind):
  from .engine import Frame
  if len(node.generators) != 1:
    return _comp_nested(eng, st, node, kind)
  gen = node.generators[0]
  it = eng.ev(gen.iter, st)
  if isinstance(it, Opt) and isinstance(it.isnone, bool) and not it.isnone:
    it = it.val
  src = st.deref(it) if isinstance(it, Ptr) else it
  if kind == "set" and not gen.ifs and ((isinstance(src, HSet) and src.items is None) or isinstance(src, HexStrSet)):
    # image of a symbolic int set under format(., 'x'), or of a hex-string set under int(., 16): the same int set
    j = z3.Int(V.fresh_name("sj"))
    fr = Frame({}, st.frame, st.frame.module, fname=st.frame.fname)
    st.frames.append(fr)
    n0 = len(st.pc)
    st.spec_depth += 1
    st.nofresh += 1
    try:
      eng.assign(st, gen.target, j if isinstance(src, HSet) else StrV(HEX_OF(j)))
      elt = eng.ev(node.elt, st)
    finally:
      st.nofresh -= 1
      st.spec_depth -= 1
      st.frames.pop()
    del st.pc[n0:]
    if isinstance(src, HSet) and isinstance(elt, StrV) and z3.is_app(elt.term) and elt.term.decl().eq(HEX_OF) \
        and elt.term.arg(0).eq(j):
      eng.used_theories.add("{format(i, 'x') for i in S}: the hex-string image of an int set (injective)")
      return HexStrSet(src.mem)
    if isinstance(src, HexStrSet) and is_sym(elt) and z3.is_app(elt) and elt.decl().eq(INT_OF_HEX) \
        and z3.is_app(elt.arg(0)) and elt.arg(0).decl().eq(HEX_OF) and elt.arg(0).arg(0).eq(j):
      eng.used_theories.add("{int(h, 16) for h in H}: decoding the hex-string image of an int set gives the set back")
      return st.alloc(HSet(items=None, mem=src.mem))
    raise_unsupported("set comprehension over a symbolic set with a general element expression")
  seq = as_iterable(eng, st, it, node)
  if seq[0] == "concrete":
    out = []
    fr = Frame({}, st.frame, st.frame.module, fname=st.frame.fname)
    st.frames.append(fr)
    try:
      for x in seq[1]:
        eng.assign(st, gen.target, x)
        ok = True
        for c in gen.ifs:
          if not eng.choose(st, eng.truthy(st, eng.ev(c, st))):
            ok = False
            break
        if not ok:
          continue
        if kind == "dict":
          out.append((eng.ev(node.key, st), eng.ev(node.value, st)))
        else:
          out.append(eng.ev(node.elt, st))
    finally:
      st.frames.pop()
    if kind == "list":
      return st.alloc(HList(items=out))
    if kind == "gen":
      return tuple(out)
    if kind == "set":
      return st.alloc(HSet(items=make_set_items(eng, st, out)))
    return st.alloc(HDict(items={hashable(eng, st, k): v for k, v in out}))
  if seq[0] == "range" and gen.ifs and isinstance(seq[3], int):
    # filtered comprehension over a symbolic range: decidable only if the range is small -> case split on its bounds
    lo = concretize(eng, st, seq[1])
    hi = concretize(eng, st, seq[2])
    return comprehension_concrete(eng, st, node, kind, list(range(lo, hi, seq[3])))
  if kind in ("list", "gen") and not gen.ifs:
    # map over a symbolic sequence: out[j] == elt(seq[j]) for all j (pure element expression)
    n = iter_len(eng, st, seq)
    j = z3.Int(V.fresh_name("cj"))
    fr = Frame({}, st.frame, st.frame.module, fname=st.frame.fname)
    st.frames.append(fr)
    n0 = len(st.pc)
    st.spec_depth += 1
    st.nofresh += 1
    outer_collect = st.__dict__.get("comp_collect")
    st.__dict__["comp_collect"] = []
    try:
      eng.assign(st, gen.target, iter_item(eng, st, seq, j, node))
      elt = eng.ev(node.elt, st)
    finally:
      oks = st.__dict__["comp_collect"]
      st.__dict__["comp_collect"] = outer_collect
      st.nofresh -= 1
      st.spec_depth -= 1
      st.frames.pop()
    axioms = st.pc[n0:]
    del st.pc[n0:]
    for ax in axioms:
      st.assume(z3.ForAll([j], ax))
    if oks and not st.spec:
      # the comprehension completed: no element expression raised, for every index of the sequence
      cond = z3.And(*[to_z3(o) if not isinstance(o, bool) else z3.BoolVal(o) for o in oks])
      st.assume(z3.ForAll([j], z3.Implies(z3.And(j >= 0, j < to_z3(n)), cond)))
    if isinstance(elt, Opaque):
      return Opaque("sequence of abstracted values (" + elt.why + ")")
    t = eng.value_type(st, elt)
    rep = _lambda_rep(t, elt, j)
    return st.alloc(HList(items=None, length=n, elem_t=t, rep=rep))
  if kind == "list" and gen.ifs and seq[0] == "slist" and isinstance(node.elt, ast.Name) and isinstance(
      gen.target, ast.Name) and node.elt.id == gen.target.id:
    return filtered_sublist(eng, st, node, gen, seq[1])
  raise_unsupported("comprehension over symbolic sequence with filter")


def filtered_sublist(eng, st, node, gen, src):
  """[x for x in src if pred(x)] over a symbolic list: a new list `out` of length m with a strictly increasing index map
  fidx: out[j] == src[fidx(j)], pred holds on every element, and every src element satisfying pred occurs."""
  from .engine import Frame
  eng.used_theories.add("filter comprehension: order-preserving sublist (index map strictly increasing, sound and complete)")
  n = to_z3(src.length)
  m = z3.Int(V.fresh_name("flt.len"))
  fidx = z3.Function(V.fresh_name("flt.idx"), I, I)
  rep = V.fresh_rep(src.elem_t, "flt")

  def pred_at(idx_term):
    fr = Frame({}, st.frame, st.frame.module, fname=st.frame.fname)
    st.frames.append(fr)
    st.spec_depth += 1
    st.nofresh += 1
    n0 = len(st.pc)
    try:
      eng.assign(st, gen.target, V.select_rep(src.elem_t, src.rep, idx_term))
      ps = [eng.truthy(st, eng.ev(c, st)) for c in gen.ifs]
    finally:
      st.nofresh -= 1
      st.spec_depth -= 1
      st.frames.pop()
    axioms = st.pc[n0:]
    del st.pc[n0:]
    return to_z3(eng.and_(*ps)), axioms
  j, j2, i = z3.Int(V.fresh_name("fj")), z3.Int(V.fresh_name("fj2")), z3.Int(V.fresh_name("fi"))
  pj, ax1 = pred_at(fidx(j))
  pi, ax2 = pred_at(i)
  for ax in ax1:
    st.assume(z3.ForAll([j], ax))
  for ax in ax2:
    st.assume(z3.ForAll([i], ax))
  st.assume(m >= 0, m <= n)
  same = to_z3(eng.eq(st, V.select_rep(src.elem_t, rep, j), V.select_rep(src.elem_t, src.rep, fidx(j))))
  st.assume(z3.ForAll([j], z3.Implies(z3.And(j >= 0, j < m), z3.And(fidx(j) >= 0, fidx(j) < n, same, pj))))
  st.assume(z3.ForAll([j, j2], z3.Implies(z3.And(j >= 0, j < j2, j2 < m), fidx(j) < fidx(j2))))
  st.assume(z3.ForAll([i], z3.Implies(z3.And(i >= 0, i < n, pi), z3.Exists([j], z3.And(j >= 0, j < m, fidx(j) == i)))))
  o = HList(items=None, length=m, elem_t=src.elem_t, rep=rep)
  o.filter_idx = fidx
  return st.alloc(o)


def concretize(eng, st, term, max_cases=10):
  """Forks the path on the value of an int term that the path condition confines to a small interval."""
  if isinstance(term, int):
    return term
  term = to_z3(term)
  lo = None
  for cand in range(-1, 3):
    if eng.known(st, term >= cand):
      lo = cand
  if lo is None:
    raise_unsupported("cannot concretize: no small lower bound")
  for v in range(lo, lo + max_cases):
    if eng.choose(st, term == v):
      return v
  raise_unsupported("cannot concretize: more than max_cases values")


def comprehension_concrete(eng, st, node, kind, items):
  from .engine import Frame
  gen = node.generators[0]
  out = []
  fr = Frame({}, st.frame, st.frame.module, fname=st.frame.fname)
  st.frames.append(fr)
  try:
    for x in items:
      eng.assign(st, gen.target, x)
      if all(eng.choose(st, eng.truthy(st, eng.ev(c, st))) for c in gen.ifs):
        out.append(eng.ev(node.elt, st))
  finally:
    st.frames.pop()
  if kind == "list":
    return st.alloc(HList(items=out))
  if kind == "gen":
    return tuple(out)
  return st.alloc(HSet(items=make_set_items(eng, st, out)))


def _comp_nested(eng, st, node, kind):
  from .engine import Frame
  out = []
  fr = Frame({}, st.frame, st.frame.module, fname=st.frame.fname)
  st.frames.append(fr)

  def rec(gi):
    if gi == len(node.generators):
      if kind == "dict":
        out.append((eng.ev(node.key, st), eng.ev(node.value, st)))
      else:
        out.append(eng.ev(node.elt, st))
      return
    gen = node.generators[gi]
    seq = as_iterable(eng, st, eng.ev(gen.iter, st), node)
    if seq[0] != "concrete":
      raise_unsupported("nested comprehension over symbolic sequence")
    for x in seq[1]:
      eng.assign(st, gen.target, x)
      if all(eng.choose(st, eng.truthy(st, eng.ev(c, st))) for c in gen.ifs):
        rec(gi + 1)
  try:
    rec(0)
  finally:
    st.frames.pop()
  if kind == "list":
    return st.alloc(HList(items=out))
  if kind == "gen":
    return tuple(out)
  if kind == "set":
    return st.alloc(HSet(items=make_set_items(eng, st, out)))
  return st.alloc(HDict(items={hashable(eng, st, k): v for k, v in out}))


def _lambda_rep(t, v, j):
  t = parse_type(t)
  if t in ("int", "bool", "real"):
    return z3.Lambda([j], to_z3(v))
  if t == "none":
    return None
  if t[0] == "opt":
    return ("opt", z3.Lambda([j], to_z3(v.isnone)), _lambda_rep(t[1], v.val, j))
  if t[0] == "tuple":
    return ("tuple", tuple(_lambda_rep(ti, vi, j) for ti, vi in zip(t[1], v)))
  if t[0] == "ref":
    return z3.Lambda([j], v.term)
  if t == "bytes":
    return ("bytes", z3.Lambda([j], to_z3(v.length)), z3.Lambda([j], to_z3(v.val)))
  raise_unsupported(f"comprehension element type {t}")


# ---------------------------------------------------------------------------------------------------------------------
# methods on values


def call_method(eng, st, selfv, name, args, kwargs, node):
  from .engine import Unsupported
  if isinstance(selfv, tuple) and selfv and selfv[0] == "$super":
    _, obj, cls = selfv
    rel, cname = cls.split("::")
    from . import source, contracts as C
    mod = source.load(rel, eng.repo)
    for b in mod.bases(cname):
      pass
    # find the method in base classes only
    m = None
    for b in mod.bases(cname):
      parts = b.split("[")[0].split(".")
      imp = mod.imports.get(parts[0])
      if len(parts) == 1 and parts[0] in mod.classes:
        m = eng.find_method(f"{rel}::{parts[0]}", name)
      elif isinstance(imp, tuple):
        rel2 = source.module_relpath(imp[0] + "." + imp[1]) if len(parts) > 1 else source.module_relpath(imp[0])
        cn = parts[-1] if len(parts) > 1 else imp[1]
        if rel2:
          m = eng.find_method(f"{rel2}::{cn}", name)
      elif isinstance(imp, str):
        rel2 = source.module_relpath(".".join([imp] + parts[1:-1]))
        if rel2:
          m = eng.find_method(f"{rel2}::{parts[-1]}", name)
      if m:
        break
    if m is None:
      return None
    fv = FuncV("method", m[1], node=m[2], selfv=obj, module=m[0])
    return eng.call_repo(st, fv, args, kwargs, node)
  if is_int_like(selfv) or is_bool_like(selfv):
    x = eng._int(selfv)
    if name == "bit_length":
      return t_bit_length(eng, st, x)
    if name == "to_bytes":
      return int_to_bytes(eng, st, x, args, kwargs, node)
    if name == "bit_count":
      return t_popcount(eng, st, x)
  if isinstance(selfv, Opt):
    eng.implicit(st, "AttributeError", eng.not_(selfv.isnone), node, f"None.{name}")
    return call_method(eng, st, selfv.val, name, args, kwargs, node)
  if isinstance(selfv, Ptr):
    o = st.deref(selfv)
    if isinstance(o, HList):
      if name == "append":
        list_append(eng, st, o, args[0], node)
        return None
      if name == "pop":
        if o.symbolic:
          if args:
            raise Unsupported("pop(i) on symbolic list")
          eng.implicit(st, "IndexError", to_z3(o.length) > 0, node, "pop from empty list")
          v = V.select_rep(o.elem_t, o.rep, to_z3(o.length) - 1)
          o.length = o.length - 1
          return v
        eng.implicit(st, "IndexError", len(o.items) > 0, node, "pop from empty list")
        return o.items.pop(*[a for a in args])
      if name == "extend":
        list_extend(eng, st, selfv, args[0], node)
        return None
      if name == "copy":
        return st.alloc(o.clone())
      if name == "index" and not o.symbolic and all(isinstance(x, int) for x in o.items) and isinstance(args[0], int):
        eng.implicit(st, "ValueError", args[0] in o.items, node, "not in list")
        return o.items.index(args[0])
      if name == "reverse" and not o.symbolic:
        o.items.reverse()
        return None
    if isinstance(o, HDict):
      if name == "get":
        if not o.symbolic:
          hk = hashable(eng, st, args[0])
          default = args[1] if len(args) > 1 else None
          if not isinstance(hk, HK) and _all_concrete_keys(o.items):
            return o.items.get(hk, default)
          for k, v in o.items.items():
            if eng.choose(st, eng.eq(st, args[0], unhash(k))):
              return v
          return default
        k = to_z3(eng.need_int(st, args[0], node))
        default = args[1] if len(args) > 1 else None
        if eng.choose(st, z3.Select(o.dom, k)):
          return V.select_rep(o.val_t, o.rep, k)
        return default
      if name == "items" and not o.symbolic:
        return ("$items", o)
      if name == "keys" and not o.symbolic:
        return tuple(unhash(k) for k in o.items)
      if name == "values" and not o.symbolic:
        return tuple(o.items.values())
      if name == "update":
        src = args[0]
        if isinstance(src, Ptr) and isinstance(st.deref(src), HDict) and not st.deref(src).symbolic and not o.symbolic:
          o.items.update(st.deref(src).items)
          return None
      if name == "setdefault" and not o.symbolic:
        hk = hashable(eng, st, args[0])
        if not isinstance(hk, HK) and _all_concrete_keys(o.items):
          return o.items.setdefault(hk, args[1] if len(args) > 1 else None)
    if isinstance(o, HSet):
      if name == "add" and o.items is not None:
        o.items[hashable(eng, st, args[0])] = args[0]
        return None
      if name == "update" and o.items is not None:
        for a in args:
          seq = as_iterable(eng, st, a, node)
          if seq[0] != "concrete":
            raise Unsupported("set.update with symbolic iterable")
          for x in seq[1]:
            o.items[hashable(eng, st, x)] = x
        return None
      if name == "union" and len(args) == 1 and (o.items is None or (
          isinstance(args[0], Ptr) and isinstance(st.deref(args[0]), HSet) and st.deref(args[0]).items is None)):
        # union with / of a symbolic int set: pointwise disjunction of the membership predicates
        other = args[0].val if isinstance(args[0], Opt) else args[0]
        if not (isinstance(other, Ptr) and isinstance(st.deref(other), HSet)):
          raise Unsupported("set.union of a symbolic set with a non-set")
        a_ptr, b_ptr = selfv, other
        return st.alloc(HSet(items=None, mem=lambda item: eng.or_(eng.contains(st, a_ptr, item, node),
                                                                   eng.contains(st, b_ptr, item, node))))
      if name == "union" and o.items is not None:
        d = dict(o.items)
        for a in args:
          seq = as_iterable(eng, st, a, node)
          if seq[0] != "concrete":
            raise Unsupported("set.union with symbolic iterable")
          for x in seq[1]:
            d[hashable(eng, st, x)] = x
        return st.alloc(HSet(items=d))
    if isinstance(o, HRecList):
      if name == "append":
        src = args[0]
        if not (isinstance(src, Ptr) and isinstance(st.deref(src), HRec)):
          raise Unsupported("append of a non-record to a repeated message field")
        rec = st.deref(src)
        for k, ft in o.fields.items():
          if k not in rec.fields:
            raise Unsupported(f"record lacks field {k}")
          o.reps[k] = V.store_rep(ft, o.reps[k], to_z3(o.length), lift(eng, st, ft, rec.fields[k]))
        o.length = o.length + 1
        return None
      if name == "add":
        defaults = {"bytes": b"", "str": "", "bool": False, "int": 0}
        for k, ft in o.fields.items():
          o.reps[k] = V.store_rep(ft, o.reps[k], to_z3(o.length), lift(eng, st, ft, kwargs.get(k, defaults[ft])))
        e = ElemRef(selfv, o.length)
        o.length = o.length + 1
        return e
    raise Unsupported(f"method {name} on {type(o).__name__}")
  if isinstance(selfv, PMEntry):
    if name != "append" or len(args) != 1:
      raise Unsupported(f"method {name} on a point-map entry")
    o = st.deref(selfv.ptr)
    kx, ky = [to_z3(eng.need_int(st, c, node)) for c in selfv.key]
    iv = to_z3(eng.need_int(st, args[0], node))
    t2 = z3.Const(V.fresh_name("pointmap"), V.RefSort)
    x, y, i = z3.Ints(f"{V.fresh_name('pmx')} {V.fresh_name('pmy')} {V.fresh_name('pmi')}")
    st.assume(z3.ForAll([x, y, i], PM_HAS(t2, x, y, i) == z3.Or(PM_HAS(o.term, x, y, i),
                                                                 z3.And(x == kx, y == ky, i == iv))))
    o.term = t2
    return None
  if isinstance(selfv, (str, StrV)):
    return str_method(eng, st, selfv, name, args, kwargs, node)
  if isinstance(selfv, (bytes, BytesV)):
    return bytes_method(eng, st, selfv, name, args, kwargs, node)
  if isinstance(selfv, Opaque):
    if (name == "digest" and "shake" in selfv.why and args) or (name == "bytes" and "numpy" in selfv.why and args):
      k = eng.need_int(st, args[0], node)
      eng.used_theories.add("hashlib.shake_128().digest(k) / numpy Generator.bytes(k): returns exactly k bytes")
      b = V.fresh("bytes", name)
      st.assume(to_z3(b.length) == to_z3(k), b.val >= 0, b.val < _pow256(eng, st, k))
      return b
    if name == "update" and "encryptor" in selfv.why and len(args) == 1:
      eng.used_theories.add("cryptography Cipher(...).encryptor().update(b): returns some bytes (length and content "
                            "unspecified)")
      b = V.fresh("bytes", "cipher_update")
      st.assume(*V.type_constraints("bytes", b))
      eng._bytes_wf(st, b)
      return b
    if name == "getrandbits" and args:
      k = eng.need_int(st, args[0], node)
      eng.used_theories.add("random.getrandbits(k): 0 <= r < 2^k")
      r = z3.Int(V.fresh_name("getrandbits"))
      st.assume(r >= 0, r < t_pow2(eng, st, k))
      return r
    eng.abstracted.add(f"method {name} on abstracted value ({selfv.why}) at L{getattr(node, 'lineno', 0)}")
    return Opaque(f"{selfv.why}.{name}()")
  if isinstance(selfv, FuncV) and selfv.kind == "builtin" and selfv.name == "int":
    if name == "from_bytes":
      return int_from_bytes(eng, st, args, kwargs, node)
    if name == "to_bytes":
      return int_to_bytes(eng, st, eng.need_int(st, args[0], node), args[1:], kwargs, node)
  if isinstance(selfv, FuncV) and selfv.kind == "builtin" and selfv.name == "bytes" and name == "fromhex":
    return bytes_fromhex(eng, st, args[0], node)
  if isinstance(selfv, EnumV):
    pass
  if isinstance(selfv, Ref):
    return ref_method(eng, st, selfv, name, args, kwargs, node)
  raise Unsupported(f"method {name} on {type(selfv).__name__}")


def ref_method(eng, st, selfv, name, args, kwargs, node):
  """Method call on an opaque reference: uninterpreted, deterministic function of (ref, int args); result opaque
  unless a model is registered in eng.ref_methods[(cls, name)]."""
  rt = eng.cur.ref_methods.get((selfv.cls, name)) if eng.cur is not None and hasattr(eng.cur, "ref_methods") else None
  if rt is not None:
    ens = []
    if isinstance(rt, str) and rt.startswith("pure:"):
      # deterministic method of an opaque object: an uninterpreted function of the receiver (and int arguments)
      _, sort, fname = rt.split(":")
      eng.used_theories.add(f"{selfv.cls}.{name} modelled as a pure function spec.{fname}(receiver) that does not raise")
      return _uf(eng, st, "spec." + fname, [selfv], B if sort == "bool" else I)
    if isinstance(rt, tuple):
      rt, ens = rt
    eng.used_theories.add(f"user-supplied {selfv.cls}.{name}: returns an arbitrary value of type {rt}"
                          + (f" with {ens}" if ens else "") + ", does not raise")
    res = eng.fresh_heap(st, rt, f"{selfv.cls}.{name}")
    from .engine import Frame
    for e in ens:
      fr = Frame({"result": res, "args": tuple(args)}, None, st.frame.module, fname="ref-method")
      st.frames.append(fr)
      st.spec_depth += 1
      try:
        st.assume(eng.truthy(st, eng.ev(ast.parse(e, mode="eval").body, st)))
      finally:
        st.spec_depth -= 1
        st.frames.pop()
    return res
  eng.abstracted.add(f"method {selfv.cls}.{name} (opaque)")
  return Opaque(f"{selfv.cls}.{name}()")


def t_popcount(eng, st, x):
  if isinstance(x, int):
    return bin(x).count("1")
  eng.used_theories.add("popcount: 0<=popcount(x)<=bit_length(x), popcount(x)==0 <=> x==0 (x>=0)")
  r = POPCOUNT(x)
  st.assume(r >= 0, z3.Implies(x >= 0, z3.And(r <= t_bit_length(eng, st, x), (r == 0) == (x == 0))))
  return r


# ---------------------------------------------------------------------------------------------------------------------
# library functions


def call_lib(eng, st, name, args, kwargs, node):
  from .engine import Unsupported
  ni = lambda v: eng.need_int(st, v, node)
  if name.startswith("logging."):
    return None
  if name == "gmpy2.mpz":
    a = args[0] if args else 0
    if isinstance(a, (str, StrV)):
      return str_to_int(eng, st, a, args[1] if len(args) > 1 else 10, node)
    if isinstance(a, Opaque):
      return a
    return ni(a)
  if name in ("gmpy2.isqrt", "math.isqrt"):
    x = ni(args[0])
    eng.implicit(st, "ValueError", x >= 0 if isinstance(x, int) else x >= 0, node, "isqrt of negative")
    return t_isqrt(eng, st, x)
  if name == "gmpy2.is_square":
    return t_is_square(eng, st, ni(args[0]))
  if name in ("gmpy2.gcd", "math.gcd"):
    return t_gcd(eng, st, ni(args[0]), ni(args[1]))
  if name == "gmpy2.invert":
    x, m = ni(args[0]), ni(args[1])
    if isinstance(x, int) and isinstance(m, int):
      import math
      eng.implicit(st, "ZeroDivisionError", m != 0 and math.gcd(x, m) == 1, node, "invert of a non-unit")
      return pow(x, -1, abs(m)) if abs(m) != 1 else 0
    return t_invert(eng, st, x, m, node)
  if name == "gmpy2.f_mod_2exp":
    x, k = ni(args[0]), ni(args[1])
    eng.implicit(st, "ValueError", k >= 0 if isinstance(k, int) else k >= 0, node, "negative exponent")
    p = t_pow2(eng, st, k)
    if isinstance(x, int) and isinstance(p, int):
      return x % p
    return eng.mod(st, x, p, node)
  if name == "gmpy2.bit_length":
    return t_bit_length(eng, st, ni(args[0]))
  if name == "gmpy2.popcount":
    return t_popcount(eng, st, ni(args[0]))
  if name == "gmpy2.powmod":
    return t_powmod(eng, st, ni(args[0]), ni(args[1]), ni(args[2]))
  if name == "gmpy2.is_prime":
    x = ni(args[0])
    if isinstance(x, int):
      import sympy
      return bool(sympy.isprime(x))
    return IS_PRIME(x)
  if name == "math.prod":
    seq = as_iterable(eng, st, args[0], node)
    if seq[0] != "concrete":
      raise Unsupported("math.prod over symbolic sequence")
    r = 1
    for x in seq[1]:
      r = r * ni(x)
    return r
  if name == "math.sqrt" and args and is_int_like(args[0]) and not isinstance(args[0], int):
    eng.abstracted.add(f"math.sqrt(<int>) at L{getattr(node, 'lineno', 0)} (float; only int(math.sqrt(x)) is given facts)")
    return V.SqrtV(to_z3(args[0]))
  if name.startswith("math."):
    import math
    if all(isinstance(a, (int, float)) and not isinstance(a, bool) for a in args):
      try:
        return getattr(math, name[5:])(*args)
      except (ValueError, OverflowError):
        pass
    if name in ("math.log", "math.log2", "math.log10") and args and is_int_like(args[0]) and not st.spec:
      eng.implicit(st, "ValueError", to_z3(ni(args[0])) > 0, node, "math domain error")
    # ghost hooks of the contract under verification at a floating-point library call: the integer arguments are
    # visible as args[...] (on_call key "builtin:math.log"); the float result stays abstracted
    hooks = eng.cur.on_call.get("builtin:" + name) if (eng.cur is not None and len(st.frames) == 1 and not st.spec) else None
    if hooks:
      eng.run_ghost(st, hooks, {"args": tuple(args), "ret": None}, f"{eng.cur.qual}/at-call:{name}@{eng.loc(node)}",
                    getattr(node, "lineno", 0))
    eng.abstracted.add(f"{name}(...) at L{getattr(node, 'lineno', 0)} (float)")
    return Opaque(name)
  if name == "time.time":
    return Opaque("time")
  if name == "itertools.zip_longest":
    seqs = [as_iterable(eng, st, a, node) for a in args]
    if all(s[0] == "concrete" for s in seqs):
      import itertools
      return tuple(itertools.zip_longest(*[s[1] for s in seqs], fillvalue=kwargs.get("fillvalue")))
    raise Unsupported("zip_longest over symbolic sequences")
  if name == "itertools.product":
    seqs = [as_iterable(eng, st, a, node) for a in args]
    if all(s[0] == "concrete" for s in seqs):
      import itertools
      return tuple(itertools.product(*[s[1] for s in seqs], repeat=kwargs.get("repeat", 1)))
    raise Unsupported("product over symbolic sequences")
  if name == "heapq.heappush":
    o = st.deref(args[0])
    if not o.symbolic:
      to_symbolic_list(eng, st, o, eng.value_type(st, args[1]) if not o.items else None)
    # heap order is not modelled: the list becomes "some list containing the pushed element"
    eng.used_theories.add("heapq: heappop returns some element of the heap (order not modelled)")
    t = o.elem_t
    o.rep = V.fresh_rep(t, "heap")
    o.length = o.length + 1
    return None
  if name == "heapq.heappop":
    o = st.deref(args[0])
    if not o.symbolic:
      to_symbolic_list(eng, st, o)
    eng.implicit(st, "IndexError", to_z3(o.length) > 0, node, "pop from empty heap")
    v = eng.fresh_heap(st, o.elem_t, "heappop")
    o.rep = V.fresh_rep(o.elem_t, "heap")
    o.length = o.length - 1
    return v
  if name == "ast.literal_eval" and len(args) == 1 and isinstance(args[0], StrV):
    eng.used_theories.add("str(S) / ast.literal_eval for a set S of lowercase hex strings: literal_eval(str(S)) == S")
    t = args[0].term
    return HexStrSet(lambda item, t=t: z3.Select(SETDEC(t), to_z3(eng.need_int(st, item))))
  if name == "collections.defaultdict":
    if (args and isinstance(args[0], FuncV) and args[0].kind == "builtin" and args[0].name == "list"
        and eng.cur is not None and getattr(eng.cur, "point_maps", False)):
      # defaultdict(list) used as point -> [indexes] multimap (declared by the contract: point_maps = True): starts empty
      eng.used_theories.add("collections.defaultdict(list) keyed by points: ghost relation pm_has(map, px, py, index); "
                            "m[(px, py)].append(i) adds exactly (px, py, i)")
      t = z3.Const(V.fresh_name("pointmap"), V.RefSort)
      x, y, i = z3.Ints(f"{V.fresh_name('pmx')} {V.fresh_name('pmy')} {V.fresh_name('pmi')}")
      st.assume(z3.ForAll([x, y, i], z3.Not(PM_HAS(t, x, y, i))))
      return st.alloc(HPointMap(t))
    return st.alloc(HDict(items={}))
  if name == "random.seed":
    return None
  if name == "random.getrandbits":
    k = ni(args[0])
    eng.used_theories.add("random.getrandbits(k): 0 <= r < 2^k")
    r = z3.Int(V.fresh_name("getrandbits"))
    st.assume(r >= 0, r < t_pow2(eng, st, k))
    return r
  if name == "os.urandom":
    st.__dict__["used_urandom"] = True
    n = ni(args[0])
    b = V.fresh("bytes", "urandom")
    st.assume(to_z3(b.length) == to_z3(n), b.val >= 0, b.val < t_pow2(eng, st, 8 * to_z3(n)) if not isinstance(
        n, int) else b.val < 2 ** (8 * n))
    return b
  eng.abstracted.add(f"library call {name} at L{getattr(node, 'lineno', 0)}")
  return Opaque(name + "()")


# ---------------------------------------------------------------------------------------------------------------------
# strings: uninterpreted sort, concrete strings are interned constants; formatting = injective UFs where stated

_str_consts = {}
STRLEN = z3.Function("str_len", V.StrSort, I)
HEX_OF = z3.Function("hex_of_int", I, V.StrSort)       # format(x, 'x') for x >= 0
INT_OF_HEX = z3.Function("int_of_hex", V.StrSort, I)   # int(s, 16)


def str_term(eng, st, s):
  if isinstance(s, StrV):
    return s.term
  if s not in _str_consts:
    tag = "".join(ch if ch.isalnum() else "_" for ch in s)[:24] + "_" + s.encode().hex()[:40]
    _str_consts[s] = z3.Const("strc_" + tag, V.StrSort)
  t = _str_consts[s]
  used = st.__dict__.setdefault("str_consts", {})
  if s not in used:
    for o, ot in used.items():
      st.assume(ot != t)
    used[s] = t
    st.assume(STRLEN(t) == len(s))
  return t


def str_nonempty(eng, st, v):
  return STRLEN(v.term) > 0


def str_len(eng, st, v):
  st.assume(STRLEN(v.term) >= 0)
  return STRLEN(v.term)


def _uf_str(eng, st, tag, args):
  """String built by an uninterpreted function of its (scalar) arguments; arbitrary if an argument is abstracted."""
  terms, sorts = [], []
  if any(isinstance(a, (Opaque, Ptr)) for a in args):
    return StrV(z3.Const(V.fresh_name("str_abstracted"), V.StrSort))
  tag = "".join(ch if (ch.isalnum() or ch in "_.") else "_" for ch in tag) + "_" + tag.encode().hex()[:16]
  for a in args:
    if isinstance(a, (str, StrV)):
      terms.append(str_term(eng, st, a))
    elif is_int_like(a) or is_bool_like(a):
      terms.append(to_z3(eng._int(a)))
    elif isinstance(a, Ref):
      terms.append(a.term)
    elif isinstance(a, Opt):
      terms.append(to_z3(a.isnone))
      if is_int_like(a.val):
        terms.append(to_z3(a.val))
    elif isinstance(a, tuple):
      for x in a:
        if is_int_like(x):
          terms.append(to_z3(x))
    else:
      continue
  f = z3.Function(tag, *[t.sort() for t in terms], V.StrSort)
  return StrV(f(*terms)) if terms else StrV(z3.Const(tag, V.StrSort))


def str_format(eng, st, fmt, arg, node):
  if isinstance(fmt, str):
    args = arg if isinstance(arg, tuple) else (arg,)
    if all(isinstance(a, (int, str)) and not isinstance(a, bool) for a in args):
      try:
        return fmt % (args if isinstance(arg, tuple) else arg)
      except (TypeError, ValueError):
        pass
    if fmt in ("%x",) and len(args) == 1:
      return format_(eng, st, args[0], "x", node)
    return _uf_str(eng, st, "fmt%" + fmt, args)
  raise_unsupported("% formatting with symbolic format")


def format_(eng, st, v, spec, node):
  if isinstance(spec, str) and isinstance(v, int) and not isinstance(v, bool):
    return format(v, spec)
  if spec == "x" and is_int_like(v):
    eng.used_theories.add("format(x,'x') / int(s,16): int(format(x,'x'),16) == x for x>=0 (round-trip law)")
    t = HEX_OF(to_z3(v))
    st.assume(INT_OF_HEX(t) == to_z3(v))      # int(format(x, 'x'), 16) == x for every int x ('-ff' for negatives)
    return StrV(t)
  return _uf_str(eng, st, f"format:{spec}", [v])


def str_to_int(eng, st, s, base, node):
  if base == 16 and isinstance(s, StrV):
    return INT_OF_HEX(s.term)
  if isinstance(s, Opaque):
    return Opaque("int(str)")
  raise_unsupported("int(<symbolic string>)")


def str_of(eng, st, v, node):
  if isinstance(v, StrV):
    return v
  if isinstance(v, HexStrSet):
    eng.used_theories.add("str(S) / ast.literal_eval for a set S of lowercase hex strings: literal_eval(str(S)) == S")
    a = _mem_array(st, v.mem)
    t = SETSTR(a)
    st.assume(SETDEC(t) == a, STRLEN(t) > 0)
    return StrV(t)
  return _uf_str(eng, st, "str()", [v]) if not isinstance(v, Ptr) else Opaque("str(object)")


def str_concat(eng, st, a, b):
  return _uf_str(eng, st, "concat", [a, b])


def fstring(eng, st, node):
  parts = []
  allc = True
  for v in node.values:
    if isinstance(v, ast.Constant):
      parts.append(v.value)
    else:
      x = eng.ev(v.value, st)
      parts.append(x)
      if not isinstance(x, (int, str)):
        allc = False
      # CPython (3.11+, sys.int_info.default_max_str_digits = 4300): decimal int -> str conversion of an integer
      # with more than 4300 digits raises ValueError.  Unlike the lazily formatted logging arguments (errors inside a
      # handler are swallowed by logging), an f-string raises into the function.
      spec = ast.unparse(v.format_spec) if v.format_spec is not None else ""
      if z3.is_expr(x) and z3.is_int(x) and not any(ch in spec for ch in "xXbo"):
        lim = z3.IntVal("1" + "0" * 4300)
        eng.implicit(st, "ValueError", z3.And(x < lim, x > -lim), v, "int -> str conversion limit (4300 digits)")
  if allc and all(not isinstance(v, ast.FormattedValue) or v.format_spec is None for v in node.values):
    return "".join(str(p) for p in parts)
  return _uf_str(eng, st, "fstr:" + ast.unparse(node)[:40], [p for p in parts if not isinstance(p, str)])


def str_method(eng, st, s, name, args, kwargs, node):
  if isinstance(s, str) and all(isinstance(a, (str, int)) for a in args):
    if name in ("lower", "upper", "strip", "startswith", "endswith", "split", "join", "replace", "zfill", "format",
                "encode", "rjust", "ljust", "count", "find", "isdigit"):
      r = getattr(s, name)(*args)
      return tuple(r) if isinstance(r, list) else r
  if name == "encode":
    return Opaque("str.encode()")
  if name == "format":
    return _uf_str(eng, st, "format:" + (s if isinstance(s, str) else "?"), list(args))
  if name == "join":
    return Opaque("str.join()")
  return Opaque(f"str.{name}()")


# ---------------------------------------------------------------------------------------------------------------------
# bytes: (length, big-endian value)


def bytes_val(b):
  if isinstance(b, bytes):
    return BytesV(len(b), int.from_bytes(b, "big"))
  return b


def _pow256(eng, st, n):
  return 256 ** n if isinstance(n, int) else t_pow2(eng, st, 8 * n)


def int_from_bytes(eng, st, args, kwargs, node):
  b = args[0]
  order = args[1] if len(args) > 1 else kwargs.get("byteorder", "big")
  if isinstance(b, Ptr):
    o = st.deref(b)
    if isinstance(o, HList) and not o.symbolic and all(isinstance(x, int) for x in o.items):
      b = bytes(o.items)
    elif isinstance(o, HList):
      return bytelist_to_int(eng, st, o, order)
  if isinstance(b, bytes) and isinstance(order, str):
    return int.from_bytes(b, order)
  if isinstance(b, Opaque):
    return Opaque("int.from_bytes(" + b.why + ")")
  if isinstance(b, BytesV) and order == "big":
    return b.val
  if isinstance(b, BytesV) and order == "little" and b.le is not None:
    return b.le
  if isinstance(b, BytesV) and order == "little":
    eng.used_theories.add("bytes reversal: from_bytes(b,'little') is some value in [0, 256^len) (not related to 'big')")
    f = z3.Function("le_of_be", I, I, I)
    r = f(to_z3(b.length), to_z3(b.val))
    st.assume(r >= 0, r < _pow256(eng, st, b.length))
    return r
  raise_unsupported("int.from_bytes")


BL_VAL = {}


def bytelist_to_int(eng, st, o, order):
  """int.from_bytes of a mutable byte list (bytearray): uninterpreted in the contents, with the range law
  0 <= r < 256^len and the top-byte law r < 256^(len-1) * (top+1) where top is the most significant byte."""
  to_symbolic_list(eng, st, o, "int")
  eng.used_theories.add("int.from_bytes(bytearray): 0<=r<256^len; r < 256^(len-1)*(msb_byte+1); msb_byte = b[0] for "
                        "'big', b[len-1] for 'little'")
  r = z3.Int(V.fresh_name("from_bytes"))
  n = to_z3(o.length)
  st.assume(r >= 0, r < _pow256(eng, st, n))
  top = z3.Select(o.rep, z3.IntVal(0)) if order == "big" else z3.Select(o.rep, n - 1)
  st.assume(z3.Implies(n >= 1, r < _pow256(eng, st, n - 1) * (top + 1)), z3.Implies(n == 0, r == 0))
  return r


def int_to_bytes(eng, st, x, args, kwargs, node):
  length = eng.need_int(st, args[0] if args else kwargs.get("length", 1), node)
  order = args[1] if len(args) > 1 else kwargs.get("byteorder", "big")
  if isinstance(x, int) and isinstance(length, int) and isinstance(order, str):
    eng.implicit(st, "OverflowError", 0 <= x < 256 ** length, node, "int too big to convert")
    return x.to_bytes(length, order)
  p = _pow256(eng, st, length)
  eng.implicit(st, "OverflowError", z3.And(to_z3(x) >= 0, to_z3(x) < to_z3(p), to_z3(length) >= 0), node,
               "int too big to convert / negative")
  if order == "big":
    return BytesV(length, x)
  f = z3.Function("le_of_be", I, I, I)
  r = f(to_z3(length), to_z3(x))
  st.assume(r >= 0, r < to_z3(p))
  eng.used_theories.add("bytes, little-endian view: x.to_bytes(n,'little') has little-endian reading x; a slice [a:c] of "
                        "it reads (x // 256^a) % 256^(c-a); from_bytes(.,'little') returns that reading")
  return BytesV(length, r, le=x)


def bytes_index(eng, st, b, idx, node, checked=False):
  b = bytes_val(b)
  i = idx if checked else _norm_index(eng, st, b.length, idx, node, "index out of range")
  # byte i (from the left) of a big-endian value of `length` bytes
  if st.nofresh and not (isinstance(b.length, int) and isinstance(i, int)) and is_sym(b.val):
    # under a binder (quantified clause): the byte as an opaque term byte_at(val, len, i); the same term is defined
    # arithmetically at every index expression of the code (below), so quantified facts about bytes match by name
    return BYTE_AT(to_z3(b.val), to_z3(b.length), to_z3(i))
  sh = _pow256(eng, st, to_z3(b.length) - 1 - to_z3(i)) if not (isinstance(b.length, int) and isinstance(i, int)) \
      else 256 ** (b.length - 1 - i)
  r = eng.mod(st, eng.floordiv(st, b.val, sh, node), 256, node)
  if is_sym(b.val) and not (isinstance(b.length, int) and isinstance(i, int)):
    st.assume(BYTE_AT(to_z3(b.val), to_z3(b.length), to_z3(i)) == to_z3(r))
  return r


def bytes_slice(eng, st, b, lo, hi, step, node):
  b = bytes_val(b)
  if step is not None:
    raise_unsupported("bytes slice with step")
  n = b.length
  if isinstance(n, int) and all(x is None or isinstance(x, int) for x in (lo, hi)):
    lo_, hi_, _ = slice(lo, hi).indices(n)
    hi_ = max(lo_, hi_)
    ln = hi_ - lo_
    val = eng.mod(st, eng.floordiv(st, b.val, 256 ** (n - hi_), node), 256 ** ln, node) if ln > 0 else 0
    le = None
    if b.le is not None:
      le = eng.mod(st, eng.floordiv(st, b.le, 256 ** lo_, node), 256 ** ln, node) if ln > 0 else 0
    return BytesV(ln, val, le)
  # symbolic: only the forms b[a:] and b[:a], b[a:c] with 0 <= a <= c <= len assumed via clamping
  nn = to_z3(n)

  def clamp(x, default):
    if x is None:
      return default
    x = to_z3(eng.need_int(st, x, node))
    x = z3.If(x < 0, z3.If(x + nn < 0, 0, x + nn), z3.If(x > nn, nn, x))
    return x
  lo_ = clamp(lo, z3.IntVal(0))
  hi_ = clamp(hi, nn)
  hi_ = z3.If(hi_ < lo_, lo_, hi_)
  ln = hi_ - lo_
  val = eng.mod(st, eng.floordiv(st, b.val, t_pow2(eng, st, 8 * (nn - hi_)), node), t_pow2(eng, st, 8 * ln), node)
  le = None
  if b.le is not None:
    le = eng.mod(st, eng.floordiv(st, b.le, t_pow2(eng, st, 8 * lo_), node), t_pow2(eng, st, 8 * ln), node)
  return BytesV(ln, val, le)


def bytes_concat(eng, st, a, b):
  a, b = bytes_val(a), bytes_val(b)
  if isinstance(a.length, int) and isinstance(b.length, int) and isinstance(a.val, int) and isinstance(b.val, int):
    return a.val.to_bytes(a.length, "big") + b.val.to_bytes(b.length, "big")
  return BytesV(a.length + b.length, a.val * _pow256(eng, st, b.length) + b.val)


def make_bytes(eng, st, name, args, node):
  if not args:
    return b""
  a = args[0]
  if name == "bytearray" and (is_int_like(a) or isinstance(a, Ptr) or isinstance(a, tuple)):
    # mutable byte list: HList of ints in [0, 256)
    if is_int_like(a):
      k = eng.need_int(st, a, node)
      eng.implicit(st, "ValueError", k >= 0 if isinstance(k, int) else k >= 0, node, "negative count")
      if isinstance(k, int) and k <= 64:
        return st.alloc(HList(items=[0] * k))
      return st.alloc(HList(items=None, length=k, elem_t="int", rep=z3.K(I, z3.IntVal(0))))
    xs = eng.iter_concrete(st, a)
    for x in xs:
      xx = eng.need_int(st, x, node)
      eng.implicit(st, "ValueError", z3.And(to_z3(xx) >= 0, to_z3(xx) < 256) if is_sym(xx) else 0 <= xx < 256, node,
                   "byte must be in range(0, 256)")
    return st.alloc(HList(items=list(xs)))
  if name == "bytearray" and isinstance(a, (bytes, BytesV)):
    return a     # bytearray(bytes) used as an immutable value here (only concatenated afterwards)
  if isinstance(a, bytes):
    return a
  if isinstance(a, BytesV):
    return a
  if isinstance(a, int):
    return bytes(a)
  if isinstance(a, (tuple, Ptr)):
    xs = eng.iter_concrete(st, a)
    if all(isinstance(x, int) for x in xs):
      return bytes(xs)
    val, n = 0, len(xs)
    for x in xs:
      x = eng.need_int(st, x, node)
      eng.implicit(st, "ValueError", z3.And(to_z3(x) >= 0, to_z3(x) < 256), node, "bytes must be in range(0, 256)")
      val = val * 256 + x
    return BytesV(n, val)
  if isinstance(a, Opaque):
    return Opaque("bytes()")
  raise_unsupported("bytes() constructor")


def bytes_fromhex(eng, st, s, node):
  if isinstance(s, str):
    return bytes.fromhex(s)
  return Opaque("bytes.fromhex()")


def bytes_join(eng, st, sep, it, node):
  """b''.join(iterable of bytes): length is the sum of the lengths; the value is uninterpreted but < 256^len."""
  if bytes_val(sep).length != 0:
    raise_unsupported("bytes.join with non-empty separator")
  seq = as_iterable(eng, st, it, node)
  if seq[0] == "concrete":
    r = b""
    for x in seq[1]:
      r = bytes_concat(eng, st, r, x)
    return r
  if seq[0] == "slist" and parse_type(seq[1].elem_t) == "bytes":
    o = seq[1]
    j = z3.Int(V.fresh_name("jj"))
    ln = z3.simplify(z3.Select(o.rep[1], j))
    if z3.is_int_value(ln):
      total = to_z3(o.length) * ln.as_long()
      eng.used_theories.add("bytes.join: length = sum of lengths; value uninterpreted, 0 <= value < 256^length")
      v = z3.Int(V.fresh_name("joined"))
      st.assume(v >= 0, v < _pow256(eng, st, total))
      return BytesV(total, v)
  raise_unsupported("bytes.join over this iterable")


def bytes_method(eng, st, b, name, args, kwargs, node):
  if name == "join":
    return bytes_join(eng, st, b, args[0], node)
  if isinstance(b, bytes) and name in ("hex",):
    return b.hex()
  return Opaque(f"bytes.{name}()")
