"""Front end: reads function bodies from /repo's current working tree on every run (no cached copy)."""
import ast
import os
import re

REPO = os.environ.get("VERIF_REPO", "/repo")


class SourceError(Exception):
  pass


class Module:
  def __init__(self, relpath, repo=None):
    self.relpath = relpath
    self.path = os.path.join(repo or REPO, relpath)
    try:
      self.text = open(self.path).read()
    except OSError as e:
      raise SourceError(f"cannot read {self.path}: {e}")
    try:
      self.tree = ast.parse(self.text)
    except SyntaxError as e:
      raise SourceError(f"syntax error in {self.path}: {e}")
    self.modname = relpath[:-3].replace("/", ".")
    self.funcs = {}      # qualname -> FunctionDef
    self.classes = {}    # name -> ClassDef
    self.assigns = {}    # module-level simple assignments name -> value node
    self.class_assigns = {}  # (cls, name) -> node
    self.imports = {}    # local name -> dotted module / (module, attr)
    for node in self.tree.body:
      if isinstance(node, ast.FunctionDef):
        self.funcs[node.name] = node
      elif isinstance(node, ast.ClassDef):
        self.classes[node.name] = node
        for sub in node.body:
          if isinstance(sub, ast.FunctionDef):
            self.funcs[f"{node.name}.{sub.name}"] = sub
          elif isinstance(sub, ast.Assign) and len(sub.targets) == 1 and isinstance(sub.targets[0], ast.Name):
            self.class_assigns[(node.name, sub.targets[0].id)] = sub.value
      elif isinstance(node, ast.Assign) and len(node.targets) == 1 and isinstance(node.targets[0], ast.Name):
        self.assigns[node.targets[0].id] = node.value
      elif isinstance(node, ast.AnnAssign) and isinstance(node.target, ast.Name) and node.value is not None:
        self.assigns[node.target.id] = node.value
      elif isinstance(node, ast.Import):
        for a in node.names:
          self.imports[a.asname or a.name.split(".")[0]] = a.name if a.asname else a.name.split(".")[0]
      elif isinstance(node, ast.ImportFrom):
        for a in node.names:
          self.imports[a.asname or a.name] = (node.module, a.name)

  def bases(self, cls):
    node = self.classes.get(cls)
    return [ast.unparse(b) for b in node.bases] if node else []


_cache = {}


def load(relpath, repo=None):
  key = (repo or REPO, relpath)
  if key not in _cache:
    _cache[key] = Module(relpath, repo)
  return _cache[key]


def clear_cache():
  _cache.clear()


def module_relpath(dotted):
  """paranoid_crypto.lib.util -> paranoid_crypto/lib/util.py if it exists in the repo."""
  rel = dotted.replace(".", "/") + ".py"
  return rel if os.path.exists(os.path.join(REPO, rel)) else None


def strip_docstring(body):
  if body and isinstance(body[0], ast.Expr) and isinstance(body[0].value, ast.Constant) and isinstance(
      body[0].value.value, str):
    return body[1:]
  return body


def loops_of(fn):
  """Loop nodes of a function in source order (pre-order), nested defs excluded; ordinal = index in this list."""
  out = []

  def walk(stmts):
    for s in stmts:
      if isinstance(s, (ast.For, ast.While)):
        out.append(s)
        walk(s.body)
        walk(s.orelse)
      elif isinstance(s, ast.If):
        walk(s.body)
        walk(s.orelse)
      elif isinstance(s, ast.Try):
        walk(s.body)
        for h in s.handlers:
          walk(h.body)
        walk(s.orelse)
        walk(s.finalbody)
      elif isinstance(s, ast.With):
        walk(s.body)
  walk(fn.body)
  return out


def parse_proto(relpath, repo=None):
  """Regex-level parse of a proto3 file: enums {name: {VALUE: number}}, messages {name: {field: (type, repeated)}}."""
  src = open(os.path.join(repo or REPO, relpath)).read()
  src = re.sub(r"//[^\n]*", "", src)
  enums, messages = {}, {}
  for m in re.finditer(r"enum\s+(\w+)\s*\{([^}]*)\}", src):
    enums[m.group(1)] = {v.group(1): int(v.group(2)) for v in re.finditer(r"(\w+)\s*=\s*(\d+)\s*;", m.group(2))}
  for m in re.finditer(r"message\s+(\w+)\s*\{([^}]*)\}", src):
    fields = {}
    for f in re.finditer(r"(repeated\s+)?(map<\s*\w+\s*,\s*\w+\s*>|[\w.]+)\s+(\w+)\s*=\s*(\d+)\s*;", m.group(2)):
      fields[f.group(3)] = (f.group(2), bool(f.group(1)))
    messages[m.group(1)] = fields
  return enums, messages
