"""Front end: reads function bodies from /repo's current working tree on every run (no cached copy)."""
import ast
import os
import re

REPO = os.environ.get("VERIF_REPO", "/repo")


class SourceError(Exception):
  pass


class Module:
  def __init__(self, relpath, repo=None):
    self.relpath = relpath
    self.path = os.path.join(repo or REPO, relpath)
    try:
      self.text = open(self.path).read()
    except OSError as e:
      raise SourceError(f"cannot read {self.path}: {e}")
    try:
      self.tree = ast.parse(self.text)
    except SyntaxError as e:
      raise SourceError(f"syntax error in {self.path}: {e}")
    self.modname = relpath[:-3].replace("/", ".")
    self.funcs = {}      # qualname -> FunctionDef
    self.classes = {}    # name -> ClassDef
    self.assigns = {}    # module-level simple assignments name -> value node
    self.class_assigns = {}  # (cls, name) -> node
    self.imports = {}    # local name -> dotted module / (module, attr)
    for node in self.tree.body:
      if isinstance(node, ast.FunctionDef):
        self.funcs[node.name] = node
      elif isinstance(node, ast.ClassDef):
        self.classes[node.name] = node
        for sub in node.body:
          if isinstance(sub, ast.FunctionDef):
            self.funcs[f"{node.name}.{sub.name}"] = sub
          elif isinstance(sub, ast.Assign) and len(sub.targets) == 1 and isinstance(sub.targets[0], ast.Name):
            self.class_assigns[(node.name, sub.targets[0].id)] = sub.value
      elif isinstance(node, ast.Assign) and len(node.targets) == 1 and isinstance(node.targets[0], ast.Name):
        self.assigns[node.targets[0].id] = node.value
      elif isinstance(node, ast.AnnAssign) and isinstance(node.target, ast.Name) and node.value is not None:
        self.assigns[node.target.id] = node.value
      elif isinstance(node, ast.Import):
        for a in node.names:
          self.imports[a.asname or a.name.split(".")[0]] = a.name if a.asname else a.name.split(".")[0]
      elif isinstance(node, ast.ImportFrom):
        for a in node.names:
          self.imports[a.asname or a.name] = (node.module, a.name)

  def bases(self, cls):
    node = self.classes.get(cls)
    return [ast.unparse(b) for b in node.bases] if node else []


_cache = {}


def load(relpath, repo=None):
  key = (repo or REPO, relpath)
  if key not in _cache:
    _cache[key] = Module(relpath, repo)
  return _cache[key]


def clear_cache():
  _cache.clear()


def module_relpath(dotted):
  """paranoid_crypto.lib.util -> paranoid_crypto/lib/util.py if it exists in the repo."""
  rel = dotted.replace(".", "/") + ".py"
  return rel if os.path.exists(os.path.join(REPO, rel)) else None


def strip_docstring(body):
  if body and isinstance(body[0], ast.Expr) and isinstance(body[0].value, ast.Constant) and isinstance(
      body[0].value.value, str):
    return body[1:]
  return body


def loops_of(fn):
  """Loop nodes of a function in source order (pre-order), nested defs excluded; ordinal = index in this list."""
  out = []

  def walk(stmts):
    for s in stmts:
      if isinstance(s, (ast.For, ast.While)):
        out.append(s)
        walk(s.body)
        walk(s.orelse)
      elif isinstance(s, ast.If):
        walk(s.body)
        walk(s.orelse)
      elif isinstance(s, ast.Try):
        walk(s.body)
        for h in s.handlers:
          walk(h.body)
        walk(s.orelse)
        walk(s.finalbody)
      elif isinstance(s, ast.With):
        walk(s.body)
  walk(fn.body)
  return out


def parse_proto(relpath, repo=None):
  """Regex-level parse of a proto3 file: enums {name: {VALUE: number}}, messages {name: {field: (type, repeated)}}."""
  src = open(os.path.join(repo or REPO, relpath)).read()
  src = re.sub(r"//[^\n]*", "", src)
  enums, messages = {}, {}
  for m in re.finditer(r"enum\s+(\w+)\s*\{([^}]*)\}", src):
    enums[m.group(1)] = {v.group(1): int(v.group(2)) for v in re.finditer(r"(\w+)\s*=\s*(\d+)\s*;", m.group(2))}
  for m in re.finditer(r"message\s+(\w+)\s*\{([^}]*)\}", src):
    fields = {}
    for f in re.finditer(r"(repeated\s+)?(map<\s*\w+\s*,\s*\w+\s*>|[\w.]+)\s+(\w+)\s*=\s*(\d+)\s*;", m.group(2)):
      fields[f.group(3)] = (f.group(2), bool(f.group(1)))
    messages[m.group(1)] = fields
  return enums, messages


MUTATORS = {"append", "extend", "insert", "pop", "remove", "clear", "add", "update", "discard", "setdefault", "sort",
            "reverse", "popitem", "appendleft", "popleft"}


def _root_name(e):
  while isinstance(e, (ast.Subscript, ast.Attribute)):
    e = e.value
  return e.id if isinstance(e, ast.Name) else None


def loop_carried(loop):
  """Names through which one iteration of `loop` can influence a later one: variables assigned or mutated in the body
  that the body also READS before (re)defining them in the same iteration.  Write-only accumulators (x = True,
  x |= r, x += 1, xs.append(v) as a statement, xs[i] = v) are not reads.  Syntactic, conservative: branches are joined
  by intersection of the definitely-assigned sets, loop bodies and try blocks may not execute.  Objects reached through
  the loop variable itself (artifact.test_info...) are per-iteration state and not tracked here."""
  body = loop.body
  assigned, mutated = set(), set()
  targets = {n.id for n in ast.walk(loop.target) if isinstance(n, ast.Name)} if isinstance(loop, ast.For) else set()

  def tnames(t):
    return {n.id for n in ast.walk(t) if isinstance(n, ast.Name) and isinstance(n.ctx, ast.Store)}
  for nd in ast.walk(ast.Module(body=body, type_ignores=[])):
    if isinstance(nd, (ast.ListComp, ast.SetComp, ast.DictComp, ast.GeneratorExp, ast.Lambda)):
      continue
    if isinstance(nd, ast.Assign):
      for t in nd.targets:
        if isinstance(t, (ast.Subscript, ast.Attribute)):
          r = _root_name(t)
          if r:
            mutated.add(r)
        else:
          assigned |= tnames(t)
    elif isinstance(nd, (ast.AugAssign, ast.AnnAssign)):
      if isinstance(nd.target, ast.Name):
        assigned.add(nd.target.id)
      else:
        r = _root_name(nd.target)
        if r:
          mutated.add(r)
    elif isinstance(nd, ast.For):
      assigned |= tnames(nd.target)
    elif isinstance(nd, ast.With):
      for it in nd.items:
        if it.optional_vars is not None:
          assigned |= tnames(it.optional_vars)
    elif isinstance(nd, ast.NamedExpr):
      assigned.add(nd.target.id)
    elif isinstance(nd, ast.Call) and isinstance(nd.func, ast.Attribute) and nd.func.attr in MUTATORS:
      r = _root_name(nd.func.value)
      if r:
        mutated.add(r)
  # comprehension-bound names shadow
  tracked = (assigned | mutated) - targets
  exposed = {}

  def reads(e, defined, skip=()):
    if e is None:
      return
    bound = set()
    for nd in ast.walk(e):
      if isinstance(nd, ast.comprehension):
        bound |= tnames(nd.target)
      elif isinstance(nd, ast.Lambda):
        bound |= {a.arg for a in nd.args.args}
    for nd in ast.walk(e):
      if isinstance(nd, ast.Name) and isinstance(nd.ctx, ast.Load) and nd.id in tracked and nd.id not in defined \
          and nd.id not in bound and id(nd) not in skip:
        exposed.setdefault(nd.id, getattr(nd, "lineno", 0))

  def walk(stmts, defined):
    for s in stmts:
      if isinstance(s, ast.Assign):
        reads(s.value, defined)
        for t in s.targets:
          if isinstance(t, (ast.Subscript, ast.Attribute)):
            # xs[i] = v / obj.f = v: index expressions are reads, the container itself is written, not read
            skip = {id(n) for n in ast.walk(t) if isinstance(n, ast.Name) and n.id == _root_name(t)}
            reads(t, defined, skip)
          else:
            defined |= tnames(t)
      elif isinstance(s, ast.AugAssign):
        reads(s.value, defined)
        if isinstance(s.target, ast.Name):
          pass        # accumulator position: x op= e does not let x influence anything else
        else:
          skip = {id(n) for n in ast.walk(s.target) if isinstance(n, ast.Name) and n.id == _root_name(s.target)}
          reads(s.target, defined, skip)
      elif isinstance(s, ast.AnnAssign):
        reads(s.value, defined)
        if isinstance(s.target, ast.Name) and s.value is not None:
          defined.add(s.target.id)
      elif isinstance(s, ast.Expr):
        v = s.value
        if isinstance(v, ast.Call) and isinstance(v.func, ast.Attribute) and v.func.attr in MUTATORS - {"pop", "popitem", "popleft", "setdefault"}:
          r = _root_name(v.func.value)
          skip = {id(n) for n in ast.walk(v.func.value) if isinstance(n, ast.Name) and n.id == r}
          reads(v, defined, skip)
        else:
          reads(v, defined)
      elif isinstance(s, ast.If):
        reads(s.test, defined)
        d1 = walk(s.body, set(defined))
        d2 = walk(s.orelse, set(defined))
        defined |= (d1 & d2)
      elif isinstance(s, ast.For):
        reads(s.iter, defined)
        walk(s.body, set(defined) | tnames(s.target))
        walk(s.orelse, set(defined))
      elif isinstance(s, ast.While):
        reads(s.test, defined)
        walk(s.body, set(defined))
        walk(s.orelse, set(defined))
      elif isinstance(s, ast.With):
        for it in s.items:
          reads(it.context_expr, defined)
          if it.optional_vars is not None:
            defined |= tnames(it.optional_vars)
        defined |= walk(s.body, set(defined)) - defined
      elif isinstance(s, ast.Try):
        walk(s.body, set(defined))
        for h in s.handlers:
          walk(h.body, set(defined))
        walk(s.orelse, set(defined))
        walk(s.finalbody, set(defined))
      elif isinstance(s, (ast.Break, ast.Continue, ast.Pass, ast.Import, ast.ImportFrom, ast.Global, ast.Nonlocal,
                          ast.FunctionDef, ast.ClassDef)):
        pass
      else:
        for ch in ast.iter_child_nodes(s):
          if isinstance(ch, ast.expr):
            reads(ch, defined)
    return defined
  walk(body, set())
  return exposed
