"""Discharges obligations: z3 (Python API) in a process pool; `unknown` goes to cvc5 on the same SMT-LIB text."""
import multiprocessing as mp
import os
import re
import time


def _z3_solve(smt, timeout_ms, want_model=True):
  import z3
  t0 = time.time()
  s = z3.Solver()
  s.set("timeout", timeout_ms)
  try:
    s.from_string(smt)
    r = s.check()
  except z3.Z3Exception as e:
    return dict(status="error", backend="z3", time=time.time() - t0, detail=str(e)[:300])
  out = dict(status=str(r), backend="z3", time=time.time() - t0)
  if r == z3.sat and want_model:
    m = s.model()
    vals = {}
    for d in m.decls():
      if d.arity() == 0:
        v = m[d]
        try:
          if z3.is_int_value(v):
            vals[d.name()] = v.as_long()
          elif z3.is_true(v) or z3.is_false(v):
            vals[d.name()] = bool(z3.is_true(v))
          else:
            vals[d.name()] = str(v)[:200]
        except Exception:
          pass
    out["model"] = vals
  elif r == z3.unknown:
    out["detail"] = s.reason_unknown()
  return out


def _beta_reduce(smt):
  """z3 prints comprehension views as (lambda ...) terms, which cvc5 accepts only in higher-order logic: z3's simplifier
  (equivalence preserving) beta-reduces every select over a lambda; the text is returned unchanged if one remains."""
  import z3
  s = z3.Solver()
  s.from_string(smt)
  g = z3.Goal()
  for a in s.assertions():
    g.add(a)
  s2 = z3.Solver()
  for a in z3.Tactic("simplify")(g, som=False)[0]:
    s2.add(a)
  out = s2.to_smt2()
  return smt if "(lambda " in out else out


def _cvc5_solve(smt, timeout_ms):
  t0 = time.time()
  try:
    import cvc5
    if "(lambda " in smt:
      smt = _beta_reduce(smt)
    slv = cvc5.Solver()
    slv.setOption("tlimit-per", str(timeout_ms))
    slv.setOption("nl-ext-tplanes", "true")
    slv.setOption("produce-models", "false")
    slv.setLogic("ALL")
    parser = cvc5.InputParser(slv)
    text = re.sub(r"\(set-info[^\n]*\n", "", smt)
    text = re.sub(r"\(set-logic[^\n]*\n", "", text)
    parser.setStringInput(cvc5.InputLanguage.SMT_LIB_2_6, text, "obligation")
    sm = parser.getSymbolManager()
    result = None
    while True:
      cmd = parser.nextCommand()
      if cmd.isNull():
        break
      name = cmd.getCommandName()
      if name == "check-sat":
        result = slv.checkSat()
        break
      cmd.invoke(slv, sm)
    if result is None:
      return dict(status="error", backend="cvc5", time=time.time() - t0, detail="no check-sat")
    st = "unsat" if result.isUnsat() else ("sat" if result.isSat() else "unknown")
    return dict(status=st, backend="cvc5", time=time.time() - t0)
  except Exception as e:  # parser/solver errors are never a verdict
    return dict(status="error", backend="cvc5", time=time.time() - t0, detail=str(e)[:300])


def _work(job):
  """Portfolio: z3 with a short budget, then cvc5, then z3 with the full budget (most obligations need < 1 s of z3;
  the non-linear ones that z3 finds hard are typically immediate for cvc5 and vice versa)."""
  idx, smt, timeout_ms, both = job[:4]
  alt = job[4] if len(job) > 4 else None
  if alt:
    # the same goal from a subset of the hypotheses (small, stable query): a proof of it is a proof of the obligation
    ra = _z3_solve(alt, min(3000, timeout_ms), want_model=False)      # short: when facts from before the loop are
    t_alt = ra.get("time", 0.0)                                          # needed the subset query only wastes time
    if ra["status"] == "unsat":
      ra["idx"] = idx
      ra["backend"] = ra.get("backend", "z3") + "(subset)"
      if not both:
        return ra
      full = _work((idx, smt, timeout_ms, both))
      if full["status"] == "sat":
        full["disagreement"] = True      # impossible for a sound solver pair: subset unsat, superset sat
        return full
      return full if full["status"] == "unsat" else ra
  short = min(6000, timeout_ms)
  r = _z3_solve(smt, short)
  r["idx"] = idx
  if r["status"] in ("unknown", "error") or both:
    r2 = _cvc5_solve(smt, timeout_ms if both else min(10000, timeout_ms))
    if r2["status"] not in ("sat", "unsat") and r["status"] in ("unknown", "error") and timeout_ms > short:
      t_prev = r.get("time", 0.0)
      r = _z3_solve(smt, timeout_ms)
      r["idx"] = idx
      r["time"] = r.get("time", 0.0) + t_prev
      if r["status"] in ("unknown", "error") and not both:
        r2 = _cvc5_solve(smt, timeout_ms)
    r["cvc5"] = r2
    if r["status"] in ("unknown", "error") and r2["status"] == "unsat":
      r.update(status="unsat", backend="cvc5", time=r["time"] + r2["time"])
    elif r["status"] in ("unknown", "error") and r2["status"] == "sat":
      # cvc5 model not extracted: treated as failed without model
      r.update(status="sat", backend="cvc5", time=r["time"] + r2["time"], model={})
    elif both and r2["status"] in ("sat", "unsat") and r["status"] in ("sat", "unsat") and r2["status"] != r["status"]:
      r["disagreement"] = True
  return r


def solve_all(obligations, timeout_ms=30000, workers=None, both=False):
  """Returns one result dict per obligation, same order."""
  jobs = [(i, ob.smt2(), timeout_ms, both, ob.smt2_alt() if hasattr(ob, "smt2_alt") else None)
          for i, ob in enumerate(obligations)]
  if not jobs:
    return []
  workers = workers or min(16, os.cpu_count() or 4)
  results = [None] * len(jobs)
  if len(jobs) < 3 or workers == 1:
    for j in jobs:
      r = _work(j)
      results[r["idx"]] = r
    return results
  ctx = mp.get_context("fork")
  with ctx.Pool(workers) as pool:
    for r in pool.imap_unordered(_work, jobs, chunksize=1):
      results[r["idx"]] = r
  return results
