"""Registries of ground obligations and bounded stand-in checks (both live in /verif/bounded/*.py)."""
import importlib
import pkgutil

GROUND = []    # dict(prop, name, fn, tier)
BOUNDED = []   # dict(prop, name, fn, bound, tier, exhaustive, functions)


def ground(prop, name, tier="quick"):
  """fn() -> (ok: bool, detail: str).  A closed statement decided by exact evaluation with an independent oracle."""
  def deco(fn):
    GROUND.append(dict(prop=prop, name=name, fn=fn, tier=tier))
    return fn
  return deco


def bounded(prop, name, bound, functions, exhaustive=False, tier="quick"):
  """fn(ctx) -> BoundedResult via ctx.case(...)/ctx.fail(...).  Labelled bounded, never counted as proved.
  ctx.tier is 'quick' or 'thorough', ctx.seed the VERIF_SEED."""
  def deco(fn):
    BOUNDED.append(dict(prop=prop, name=name, fn=fn, bound=bound, tier=tier, exhaustive=exhaustive,
                        functions=functions))
    return fn
  return deco


_SAFE = {"len": len, "int": int, "str": str, "any": any, "all": all, "isinstance": isinstance, "abs": abs, "min": min,
         "max": max}


def match_known_bounded(known, prop, item):
  """Returns the known finding (dict) whose predicate matches this bounded-tier failure, or None."""
  for f in known.get("findings", []):
    m = f.get("match", {})
    if f.get("property") != prop or m.get("kind") != "bounded":
      continue
    if m.get("check") and m["check"] != item.get("check"):
      continue
    try:
      if eval(m["predicate"], {"__builtins__": _SAFE},
              dict(inputs=item.get("inputs"), what=item.get("what"), observed=item.get("observed"),
                   expected=item.get("expected"))):
        return f
    except Exception:
      continue
  return None


class Ctx:
  def __init__(self, tier, seed, name, prop=None, known=None):
    self.tier, self.seed, self.name = tier, seed, name
    self.prop, self.known = prop, known or {}
    self.known_hits = {}      # finding id -> [count, first example]
    self.evaluations = 0
    self.nontrivial = set()
    self.failures = []
    self.samples = []
    self.notes = []
    import random
    import zlib
    self.rnd = random.Random(seed * 1000003 + zlib.crc32(name.encode()) % 100003)

  @property
  def thorough(self):
    return self.tier == "thorough"

  def case(self, key=None, nontrivial=True, sample=None):
    """Counts one evaluation; `key` identifies distinct non-trivial cases."""
    self.evaluations += 1
    if nontrivial and key is not None and len(self.nontrivial) < 2000000:
      self.nontrivial.add(key)
    if sample is not None and len(self.samples) < 3:
      self.samples.append(sample)

  def fail(self, what, inputs, observed=None, expected=None):
    item = dict(check=self.name, what=what, inputs=_js(inputs), observed=_js(observed), expected=_js(expected))
    f = match_known_bounded(self.known, self.prop, item) if self.known else None
    if f is not None:
      # failures matching a committed known finding are tallied separately so that they cannot crowd out new ones
      h = self.known_hits.setdefault(f["id"], [0, item, f["what"]])
      h[0] += 1
      return
    if len(self.failures) < 50:
      self.failures.append(item)

  def check(self, cond, what, inputs, observed=None, expected=None):
    if not cond:
      self.fail(what, inputs, observed, expected)
    return cond


def _js(x):
  if x is None or isinstance(x, (bool, str, float)):
    return x
  if isinstance(x, int):
    return x if abs(x) < 2 ** 53 else hex(x)
  if isinstance(x, bytes):
    return "bytes:" + x.hex()
  if isinstance(x, dict):
    return {str(k): _js(v) for k, v in x.items()}
  if isinstance(x, (list, tuple, set, frozenset)):
    return [_js(v) for v in x]
  try:
    return _js(int(x))
  except Exception:
    return repr(x)[:300]


LOAD_ERRORS = {}   # module name -> traceback text (a broken module only affects the property it is named after)


def load_all():
  import bounded as pkg
  import traceback
  for m in pkgutil.iter_modules(pkg.__path__):
    try:
      importlib.import_module(f"bounded.{m.name}")
    except Exception:
      LOAD_ERRORS[m.name] = traceback.format_exc()[-1500:]
