"""Makes /repo importable under the overlay interpreter for replay and the bounded tier: builds the two _pb2 modules at
run time from the .proto files (no protoc in the sandbox) and provides the C++ Berlekamp-Massey through a ctypes shim
compiled from the working tree (no pybind11 in the sandbox)."""
import ctypes
import os
import re
import subprocess
import sys
import types

REPO = os.environ.get("VERIF_REPO", "/repo")
VERIF = os.path.dirname(os.path.dirname(os.path.abspath(__file__)))
_installed = False


def _parse_proto(path, name):
  from google.protobuf import descriptor_pb2
  src = open(path).read()
  src = re.sub(r"//[^\n]*", "", src)
  fdp = descriptor_pb2.FileDescriptorProto()
  fdp.name = name
  fdp.syntax = "proto3"
  fdp.package = re.search(r"package\s+([\w.]+)\s*;", src).group(1)
  enums = set()
  for m in re.finditer(r"enum\s+(\w+)\s*\{([^}]*)\}", src):
    e = fdp.enum_type.add()
    e.name = m.group(1)
    enums.add(e.name)
    for v in re.finditer(r"(\w+)\s*=\s*(\d+)\s*;", m.group(2)):
      ev = e.value.add()
      ev.name = v.group(1)
      ev.number = int(v.group(2))
  scalar = {"bytes": 12, "string": 9, "bool": 8, "uint64": 4, "int64": 3, "uint32": 13, "int32": 5}
  for m in re.finditer(r"message\s+(\w+)\s*\{([^}]*)\}", src):
    msg = fdp.message_type.add()
    msg.name = m.group(1)
    for f in re.finditer(r"(repeated\s+)?(map<\s*(\w+)\s*,\s*(\w+)\s*>|[\w.]+)\s+(\w+)\s*=\s*(\d+)\s*;", m.group(2)):
      rep, typ, mk, mv, fname, num = f.groups()
      fd = msg.field.add()
      fd.name = fname
      fd.number = int(num)
      fd.label = 3 if (rep or mk) else 1
      if mk:
        entry = msg.nested_type.add()
        entry.name = "".join(p.capitalize() for p in fname.split("_")) + "Entry"
        entry.options.map_entry = True
        for i, (nm, t) in enumerate((("key", mk), ("value", mv))):
          ef = entry.field.add()
          ef.name = nm
          ef.number = i + 1
          ef.label = 1
          ef.type = scalar[t]
        fd.type = 11
        fd.type_name = "." + fdp.package + "." + msg.name + "." + entry.name
      elif typ in scalar:
        fd.type = scalar[typ]
      elif typ in enums:
        fd.type = 14
        fd.type_name = "." + fdp.package + "." + typ
      else:
        fd.type = 11
        fd.type_name = "." + fdp.package + "." + typ
  return fdp


def _make_module(modname, path, protoname):
  from google.protobuf import descriptor_pool, message_factory
  from google.protobuf.internal import enum_type_wrapper
  fdp = _parse_proto(path, protoname)
  pool = descriptor_pool.Default()
  try:
    fd = pool.FindFileByName(protoname)
  except KeyError:
    fd = pool.AddSerializedFile(fdp.SerializeToString())
  mod = types.ModuleType(modname)
  mod.DESCRIPTOR = fd
  for name, ed in fd.enum_types_by_name.items():
    setattr(mod, name, enum_type_wrapper.EnumTypeWrapper(ed))
    for v in ed.values:
      setattr(mod, v.name, v.number)
  for name, md in fd.message_types_by_name.items():
    setattr(mod, name, message_factory.MessageFactory(pool).GetPrototype(md))
  sys.modules[modname] = mod
  return mod


def build_bm_shim(variant="native"):
  """Compiles berlekamp_massey.cc from the working tree with a 3-line extern "C" shim; returns a ctypes function
  lfsr(bytes, nbits) -> int.  variant: 'clmul' (-mpclmul) or 'portable'."""
  bdir = os.path.join(VERIF, "build")
  os.makedirs(bdir, exist_ok=True)
  src = os.path.join(REPO, "paranoid_crypto/lib/randomness_tests/cc_util/berlekamp_massey.cc")
  shim = os.path.join(bdir, "bm_wrap.cc")
  with open(shim, "w") as f:
    f.write('#include "paranoid_crypto/lib/randomness_tests/cc_util/berlekamp_massey.h"\n'
            'extern "C" int vp_lfsr_length(const unsigned char* p, long size, int n) {\n'
            '  return paranoid_crypto::lib::randomness_tests::cc_util::LfsrLengthStr('
            'std::string((const char*)p, size), n);\n}\n')
  so = os.path.join(bdir, f"bm_{variant}_{os.getpid()}.so")
  cmd = ["g++", "-O2", "-std=c++17", "-shared", "-fPIC", "-I" + REPO, src, shim, "-o", so]
  if variant == "clmul":
    # the source enables its carry-less-multiplication path with `#ifdef __CLMUL__`, a macro that neither gcc nor clang
    # defines for -mpclmul (they define __PCLMUL__); it has to be defined explicitly to compile that variant at all
    cmd.insert(1, "-D__CLMUL__")
    cmd.insert(1, "-mpclmul")
    cmd.insert(1, "-msse2")
  r = subprocess.run(cmd, capture_output=True, text=True)
  if r.returncode != 0:
    raise RuntimeError("C++ build failed: " + r.stderr[-2000:])
  lib = ctypes.CDLL(so)
  lib.vp_lfsr_length.argtypes = [ctypes.c_char_p, ctypes.c_long, ctypes.c_int]
  lib.vp_lfsr_length.restype = ctypes.c_int
  os.unlink(so)

  def lfsr(data: bytes, n: int) -> int:
    return lib.vp_lfsr_length(data, len(data), n)
  return lfsr


def install(with_bm=False):
  """Idempotent. After this `from paranoid_crypto.lib import paranoid` works."""
  global _installed
  if _installed and not with_bm:
    return
  if REPO not in sys.path:
    sys.path.insert(0, REPO)
  import warnings
  warnings.filterwarnings("ignore")
  m = _make_module("paranoid_crypto.paranoid_pb2", os.path.join(REPO, "paranoid_crypto/paranoid.proto"),
                   "paranoid_crypto/paranoid.proto")
  import paranoid_crypto
  paranoid_crypto.paranoid_pb2 = m
  d = _make_module("paranoid_crypto.lib.data.data_pb2", os.path.join(REPO, "paranoid_crypto/lib/data/data.proto"),
                   "paranoid_crypto/lib/data/data.proto")
  import paranoid_crypto.lib.data as pd
  pd.data_pb2 = d
  name = "paranoid_crypto.lib.randomness_tests.cc_util.pybind.berlekamp_massey"
  if with_bm or name not in sys.modules:
    # the module object is updated IN PLACE: berlekamp_massey.py binds it at import time, so replacing the entry of
    # sys.modules after an earlier install() (same pool worker, another bounded check) would leave the stub in use
    bm = sys.modules.get(name) or types.ModuleType(name)
    if with_bm:
      f = build_bm_shim("clmul")
      bm.LfsrLength = lambda ba, n: f(bytes(ba), n)
    else:
      def _missing(ba, n):
        raise RuntimeError("C++ Berlekamp-Massey shim not built (install(with_bm=True))")
      bm.LfsrLength = _missing
    sys.modules[name] = bm
  _installed = True
  try:
    from absl import logging as absl_logging
    absl_logging.set_verbosity(absl_logging.FATAL)
    import logging
    logging.disable(logging.CRITICAL)
  except Exception:
    pass
