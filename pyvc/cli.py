"""./check <property> --tier quick|thorough [--replay path] [--update-baseline]

Exit codes: 0 held (or only known findings) / 1 VIOLATION / 2 undecided / 3 checker crash.  See DESIGN.md 3.
"""
import argparse
import json
import multiprocessing as mp
import os
import re
import sys
import time
import traceback

VERIF = os.path.dirname(os.path.dirname(os.path.abspath(__file__)))
sys.path.insert(0, VERIF)

from pyvc import contracts as C, backend, registry  # noqa: E402

QUICK_TIMEOUT_MS = 30000
THOROUGH_TIMEOUT_MS = 120000


# Modules whose EVERY function gets the syntactic frame check (no state outside the arguments) under a property, with
# or without a contract: memoisation / module-level caches make results depend on call history.
_CHECK_MODULES = ["paranoid_crypto/lib/rsa_single_checks.py", "paranoid_crypto/lib/rsa_aggregate_checks.py",
                  "paranoid_crypto/lib/ec_single_checks.py", "paranoid_crypto/lib/ec_aggregate_checks.py",
                  "paranoid_crypto/lib/ecdsa_sig_checks.py", "paranoid_crypto/lib/base_check.py"]
FRAME_MODULES = {
    "C01": _CHECK_MODULES + ["paranoid_crypto/lib/rsa_util.py", "paranoid_crypto/lib/special_case_factoring.py"],
    "C02": _CHECK_MODULES + ["paranoid_crypto/lib/ec_util.py"],
    "C03": ["paranoid_crypto/lib/rsa_aggregate_checks.py", "paranoid_crypto/lib/rsa_util.py",
            "paranoid_crypto/lib/ntheory_util.py"],
    "C04": ["paranoid_crypto/lib/rsa_single_checks.py", "paranoid_crypto/lib/rsa_util.py",
            "paranoid_crypto/lib/special_case_factoring.py"],
    "C05": ["paranoid_crypto/lib/rsa_single_checks.py", "paranoid_crypto/lib/rsa_util.py"],
    "C06": _CHECK_MODULES + ["paranoid_crypto/lib/roca.py"],
    "C16": _CHECK_MODULES + ["paranoid_crypto/lib/util.py"],
    "C18": _CHECK_MODULES,
    "C09": ["paranoid_crypto/lib/ec_util.py", "paranoid_crypto/lib/util.py"],
    "C10": ["paranoid_crypto/lib/ec_util.py"],
    "C11": ["paranoid_crypto/lib/ec_util.py"],
    "C12": ["paranoid_crypto/lib/randomness_tests/nist_suite.py", "paranoid_crypto/lib/randomness_tests/extended_nist_suite.py",
            "paranoid_crypto/lib/randomness_tests/util.py", "paranoid_crypto/lib/randomness_tests/berlekamp_massey.py"],
    "C14": ["paranoid_crypto/lib/randomness_tests/berlekamp_massey.py"],
    "C15": ["paranoid_crypto/lib/randomness_tests/util.py"],
    "C17": ["paranoid_crypto/lib/rsa_single_checks.py", "paranoid_crypto/lib/rsa_aggregate_checks.py",
            "paranoid_crypto/lib/ec_single_checks.py", "paranoid_crypto/lib/ec_aggregate_checks.py",
            "paranoid_crypto/lib/ecdsa_sig_checks.py", "paranoid_crypto/lib/rsa_util.py", "paranoid_crypto/lib/ec_util.py",
            "paranoid_crypto/lib/special_case_factoring.py", "paranoid_crypto/lib/ntheory_util.py",
            "paranoid_crypto/lib/roca.py", "paranoid_crypto/lib/util.py"],
    "C19": ["paranoid_crypto/lib/ntheory_util.py", "paranoid_crypto/lib/linalg_util.py",
            "paranoid_crypto/lib/randomness_tests/lattice_suite.py"],
    "C20": ["paranoid_crypto/lib/randomness_tests/rng.py"],
}


def _frame_module_worker(job):
  rel, prop = job
  try:
    from pyvc import engine as E, source
    C.load_all()
    mod = source.load(rel)
    eng = E.Engine(prop=prop)
    fake = type("F", (), {})()
    for qual, fn in mod.funcs.items():
      fake.target, fake.qual, fake.frame_ok = f"{rel}::{qual}", qual, set()
      c = C.REGISTRY.get(fake.target)
      if c is not None:
        fake.frame_ok = c.frame_ok
      eng.emit_frame(fake, fn, mod)
    obs = [dict(label=ob.label, kind=ob.kind, func=f"{rel}::{ob.label.split('/frame')[0]}", clause=ob.clause, line=0,
                path="", smt2=ob.smt2(), inputs={}, note="") for ob in eng.obligations]
    # one (trivially discharged) marker obligation per module, so that the scan is visible and counted
    import z3
    mk = z3.Solver()
    mk.add(z3.BoolVal(False))
    obs.append(dict(label=f"{rel}/frame-scan:{len(mod.funcs)} functions scanned for module-level / class-level state",
                    kind="frame", func=rel, clause="syntactic scan performed", line=0, path="", smt2=mk.to_smt2(),
                    inputs={}, note=""))
    return dict(target="frame:" + rel, result=dict(status="ok", paths=0), obligations=obs, abstracted=[], assumed=[],
                theories=[], gen_time=0.0)
  except Exception:
    return dict(target="frame:" + rel, result=dict(status="crash", reason=traceback.format_exc()[-3000:]), obligations=[],
                abstracted=[], assumed=[], theories=[], gen_time=0.0)


# ---------------------------------------------------------------------------------------------------------------------
# phase 1: VC generation (one process per function under contract)


PROP_INCLUDES = {"C13": ["C12"]}
# single contracts of another property that a property's check also verifies (under that other property's tags): the
# batch / history independence of the EC searches (C17) rests on their completeness for EVERY state of the table cached
# on the curve - whatever an earlier, larger or smaller batch left there (seed C17-8: a key at an exact multiple of the
# giant step was found only with a larger cached table)
_EC = "paranoid_crypto/lib/ec_util.py::EcCurve."
TARGET_INCLUDES = {"C17": [(_EC + "BatchDL#completeness", "C10"), (_EC + "ExtendedBatchDL#completeness", "C10"),
                           (_EC + "BatchDLOfDifferences#completeness", "C10")]}


def _gen_worker(job):
  target, prop = job
  try:
    from pyvc import engine as E
    C.load_all()
    c = C.REGISTRY[target]
    eng = E.Engine(prop=prop)
    t0 = time.time()
    if c.assumed:
      # body not verified; the syntactic frame condition (no state outside the arguments) is still checked
      from pyvc import source
      mod = source.load(c.relpath)
      fn = mod.funcs.get(c.qual)
      if fn is None:
        r = dict(status="ok", paths=0)
      else:
        eng.emit_frame(c, fn, mod)
        r = dict(status="ok", paths=0)
    else:
      try:
        r = eng.verify(c)
      except Exception:
        # an exception of the VC generator on (possibly edited) source means "this function left the supported
        # subset": undecided for that function; the obligations generated before the exception are still decided
        r = dict(status="unsupported", reason="engine exception: " + traceback.format_exc()[-1500:])
    obs = []
    for ob in eng.obligations:
      obs.append(dict(label=ob.label, kind=ob.kind, func=target, clause=ob.clause, line=ob.line,
                      path="".join("T" if b else "F" for b in ob.path), smt2=ob.smt2(), smt2_alt=ob.smt2_alt(),
                      inputs={k: str(v) for k, v in ob.inputs.items()}, note=ob.note))
    return dict(target=target, result=r, obligations=obs, abstracted=sorted(eng.abstracted),
                assumed=sorted(eng.assumed_contracts), theories=sorted(eng.used_theories),
                called=sorted(eng.called_contracts), gen_time=time.time() - t0)
  except Exception:
    # an exception of the VC generator on (possibly edited) source means "this function is outside the front end":
    # undecided for that function, never a crash of the whole check (bounded-tier results must still be reported)
    return dict(target=target, result=dict(status="unsupported", reason="engine exception: " + traceback.format_exc()[-1500:]),
                obligations=[], abstracted=[], assumed=[], theories=[], gen_time=0.0)


def _lemma_worker(job):
  name, prop = job
  try:
    from pyvc import lemmas
    C.load_all()
    return lemmas.generate(C.LEMMAS[name])
  except Exception:
    return dict(target="lemma:" + name, result=dict(status="crash", reason=traceback.format_exc()[-3000:]),
                obligations=[], abstracted=[], assumed=[], theories=[], gen_time=0.0)


class _Ob:
  def __init__(self, d):
    self.d = d

  def smt2(self):
    return self.d["smt2"]


# ---------------------------------------------------------------------------------------------------------------------
# phase 3: bounded tier / ground


def _bounded_worker(job):
  idx, tier, seed = job
  try:
    registry.load_all()
    b = registry.BOUNDED[idx]
    ctx = registry.Ctx(tier, seed, b["name"], prop=b["prop"], known=load_known())
    t0 = time.time()
    b["fn"](ctx)
    return dict(idx=idx, ok=True, evaluations=ctx.evaluations, distinct=len(ctx.nontrivial), failures=ctx.failures,
                known_hits={k: [v[0], v[1], v[2]] for k, v in ctx.known_hits.items()},
                samples=ctx.samples, notes=ctx.notes, time=time.time() - t0)
  except Exception:
    return dict(idx=idx, ok=False, crash=traceback.format_exc()[-3000:], evaluations=0, distinct=0, failures=[],
                known_hits={},
                samples=[], notes=[], time=0.0)


def _ground_worker(job):
  idx, = job
  try:
    registry.load_all()
    g = registry.GROUND[idx]
    t0 = time.time()
    ok, detail = g["fn"]()
    return dict(idx=idx, ok=bool(ok), detail=str(detail)[:1500], time=time.time() - t0, crash=None)
  except Exception:
    return dict(idx=idx, ok=False, detail="", time=0.0, crash=traceback.format_exc()[-3000:])


# ---------------------------------------------------------------------------------------------------------------------


def load_known():
  p = os.path.join(VERIF, "known_findings.json")
  if not os.path.exists(p):
    return dict(findings=[], fixed=[])
  return json.load(open(p))


def match_known(known, prop, kind, item):
  """item: failed obligation dict or bounded failure dict. Returns the finding or None."""
  for f in known.get("findings", []):
    if f["property"] != prop:
      continue
    m = f["match"]
    if m.get("kind") != kind:
      continue
    try:
      if kind == "obligation":
        if re.search(m["label_regex"], item["label"]):
          return f
      elif kind == "ground":
        if m["name"] == item["name"]:
          return f
      else:
        if m.get("check") and m["check"] != item.get("check"):
          continue
        if eval(m["predicate"], {"__builtins__": {"len": len, "int": int, "str": str, "any": any, "all": all,
                                                  "isinstance": isinstance, "abs": abs, "min": min, "max": max}},
                dict(inputs=item.get("inputs"), what=item.get("what"), observed=item.get("observed"),
                     expected=item.get("expected"))):
          return f
    except Exception:
      continue
  return None


def main(argv=None):
  ap = argparse.ArgumentParser()
  ap.add_argument("prop")
  ap.add_argument("--tier", default=os.environ.get("VERIF_TIER", "quick"), choices=["quick", "thorough"])
  ap.add_argument("--replay")
  ap.add_argument("--update-baseline", action="store_true")
  ap.add_argument("--no-bounded", action="store_true")
  ap.add_argument("--only", help="substring filter on function targets (development)")
  args = ap.parse_args(argv)
  prop, tier = args.prop, args.tier
  seed = int(os.environ.get("VERIF_SEED", "0") or 0)
  t_start = time.time()
  if args.replay:
    from pyvc import replay
    return replay.rerun(args.replay)

  C.load_all()
  registry.load_all()
  # properties that build on another property: C13 (the suite's verdicts on good / weak generators) presupposes that every
  # single test computes its p-value as specified (C12) - C12's obligations, ground tables and bounded checks are part of
  # C13's check as well
  also = PROP_INCLUDES.get(prop, [])
  targets = [t for t, c in C.REGISTRY.items() if (prop in c.all_props() or any(a in c.all_props() for a in also))
             and not c.assumed]
  # assumed contracts used by this property's functions: only their frame condition is checked
  frame_targets = [t for t, c in C.REGISTRY.items() if c.assumed and not t.endswith(".__fields__") and
                   (prop in c.all_props() or prop in getattr(c, "frame_props", ()))]
  targets += [t for t in frame_targets if t not in targets]
  included = {t: p for t, p in TARGET_INCLUDES.get(prop, []) if t in C.REGISTRY}
  targets += [t for t in included if t not in targets]
  if args.only:
    targets = [t for t in targets if args.only in t]
  # lemmas: those declared for the property plus every lemma instantiated by one of its contracts (found after VC
  # generation through the `lemma:<name>` theory tag; proved in the same run)
  lemma_names = [n for n, l in C.LEMMAS.items() if prop in l.props]
  names_seen = set()
  bidx, gidx = [], []
  for i, b in enumerate(registry.BOUNDED):
    if (b["prop"] == prop or b["prop"] in also) and (b["tier"] == "quick" or tier == "thorough") and b["name"] not in names_seen:
      if b["prop"] != prop and any(x["prop"] == prop and x["name"] == b["name"] for x in registry.BOUNDED):
        continue
      names_seen.add(b["name"])
      bidx.append(i)
  for i, g in enumerate(registry.GROUND):
    if (g["prop"] == prop or g["prop"] in also) and (g["tier"] == "quick" or tier == "thorough"):
      gidx.append(i)
  if args.no_bounded:
    bidx = []
  if not targets and not lemma_names and not bidx and not gidx:
    print(f"checker error: nothing registered for {prop}")
    return 3

  ctx = mp.get_context("fork")
  workers = min(16, os.cpu_count() or 4)
  crash = []
  for mod, tb in registry.LOAD_ERRORS.items():
    if mod.lower() == prop.lower():
      crash.append(f"bounded/{mod}.py failed to import: {tb}")
  with ctx.Pool(workers) as pool:
    # bounded + ground run concurrently with the deductive part
    b_async = [pool.apply_async(_bounded_worker, ((i, tier, seed),)) for i in bidx]
    g_async = [pool.apply_async(_ground_worker, ((i,),)) for i in gidx]
    t_gen0 = time.time()
    def gen_prop(t):      # a target that belongs to an included property is verified under THAT property's tags
      c0 = C.REGISTRY[t]
      if t in included:
        return included[t]
      if prop in c0.all_props() or prop in getattr(c0, "frame_props", ()):
        return prop
      for a in also:
        if a in c0.all_props():
          return a
      return prop
    gens = pool.map(_gen_worker, [(t, gen_prop(t)) for t in targets], chunksize=1)
    # dependency closure: a proof here is modular, so the property also rests on the contract of every callee reached
    # from its functions.  Callee contracts that this property's tags do not select are verified too, with ALL their
    # clauses (prop = None), transitively - a change inside a shared helper is then noticed by every property above it.
    dep_targets = []
    if not args.only and not os.environ.get("VERIF_NO_DEPS"):
      seen = set(targets)
      frontier = gens
      while True:
        new = sorted({t for g in frontier for t in g.get("called", []) if t not in seen and t in C.REGISTRY
                      and not t.endswith(".__fields__")})
        if not new:
          break
        seen.update(new)
        dep_targets += new
        frontier = pool.map(_gen_worker, [(t, None) for t in new], chunksize=1)
        gens += frontier
      targets = targets + dep_targets
    used = sorted({t.split(":", 1)[1] for g in gens for t in g.get("theories", []) if t.startswith("lemma:")})
    done_l = set()
    while True:      # lemmas may use lemmas
      todo = [n for n in sorted(set(lemma_names) | set(used)) if n not in done_l]
      if not todo:
        break
      lg = pool.map(_lemma_worker, [(n, prop) for n in todo], chunksize=1)
      gens += lg
      done_l.update(todo)
      used = sorted(set(used) | {t.split(":", 1)[1] for g in lg for t in g.get("theories", []) if t.startswith("lemma:")})
    if not args.only:
      gens += pool.map(_frame_module_worker, [(rel, prop) for rel in FRAME_MODULES.get(prop, [])], chunksize=1)
    all_obs = [o for g in gens for o in g["obligations"]]
    timeout = QUICK_TIMEOUT_MS if tier == "quick" else THOROUGH_TIMEOUT_MS
    jobs = [(i, o["smt2"], timeout, tier == "thorough", o.get("smt2_alt")) for i, o in enumerate(all_obs)]
    results = [None] * len(jobs)
    t_solve0 = time.time()
    for r in pool.imap_unordered(backend._work, jobs, chunksize=1):
      results[r["idx"]] = r
    t_solve1 = time.time()
    b_res = [a.get() for a in b_async]
    g_res = [a.get() for a in g_async]
  # retry unknowns once, sequentially, with a doubled budget (load robustness)
  n_retry = 0
  for i, r in enumerate(results):
    if r["status"] in ("unknown", "error"):
      n_retry += 1
      r2 = backend._work((i, all_obs[i]["smt2"], timeout * 2, True))
      if r2["status"] in ("sat", "unsat"):
        r2["retried"] = True
        results[i] = r2
  t_retry1 = time.time()

  known = load_known()
  base_path = os.path.join(VERIF, "baseline", f"{prop}.json")
  # site ordinals (@Call2, @BinOp7) are stripped for the comparison: a harmless edit may renumber sites
  norm = lambda lab: re.sub(r"@[A-Za-z]+\d+", "@", lab)
  baseline = set(norm(l) for l in json.load(open(base_path))["labels"]) if os.path.exists(base_path) else set()

  undecided, violations, known_lines, notes = [], [], [], []
  func_status = {}
  for g in gens:
    st = g["result"]["status"]
    func_status[g["target"]] = st
    if st == "crash":
      crash.append(f"{g['target']}: {g['result']['reason']}")
    elif st != "ok":
      undecided.append(f"{g['target']}: {st}: {g['result'].get('reason')}")
  n_discharged = 0
  counted = 0
  by_backend = {}
  solver_time = 0.0
  kf_obligations = []
  failed = []
  labels_now = set()
  disagreements = []
  k_unsat = set()
  for o, r in zip(all_obs, results):
    solver_time += r.get("time", 0.0)
    labels_now.add(norm(o["label"]))
    is_k = "[K:" in o["label"]
    if r.get("disagreement"):
      disagreements.append(o["label"])
    if r["status"] == "unsat":
      if is_k:
        k_unsat.add(o["label"])
        continue
      counted += 1
      n_discharged += 1
      by_backend[r["backend"]] = by_backend.get(r["backend"], 0) + 1
    elif r["status"] != "unsat" and o["kind"] == "model-pre":
      counted += 1
      undecided.append(f"{o['label']}: side condition of the engine's model not established ({r['status']})")
    elif r["status"] == "sat":
      f = match_known(known, prop, "obligation", o) if is_k else None
      if f is not None:
        kf_obligations.append(dict(label=o["label"], finding=f["id"], verdict="sat", model=_model_inputs(o, r)))
        known_lines.append(f"KNOWN-FINDING: property={prop} {f['id']} {f['what']}")
      else:
        counted += 1
        failed.append((o, r, "sat"))
    else:
      if is_k and match_known(known, prop, "obligation", o) is not None:
        f = match_known(known, prop, "obligation", o)
        kf_obligations.append(dict(label=o["label"], finding=f["id"], verdict="unknown"))
        known_lines.append(f"KNOWN-FINDING: property={prop} {f['id']} {f['what']}")
        continue
      counted += 1
      if norm(o["label"]) in baseline:
        failed.append((o, r, "regressed"))
      else:
        undecided.append(f"{o['label']}: solver {r['status']} ({r.get('detail', '')})")
  for lab in sorted(k_unsat - {k["label"] for k in kf_obligations}):
    notes.append(f"known-finding obligation discharges on every path (stale known_findings entry?): {lab}")
  missing = sorted(l for l in baseline if l not in labels_now)
  if missing and not args.only:
    undecided.append(f"{len(missing)} baseline obligation(s) no longer generated, e.g. {missing[0]}")
  if disagreements:
    crash.append("solver disagreement on: " + "; ".join(disagreements[:3]))

  # replay of failed obligations
  os.makedirs(os.path.join(VERIF, "evidence", "replay"), exist_ok=True)
  from pyvc import replay
  replay_files = []
  for o, r, why in failed:
    rp = replay.make(prop, o, r, why, tier)
    replay_files.append(rp)
    violations.append((rp["path"], rp["reproduced"], o["label"]))

  # ground
  ground_out = []
  for gr in g_res:
    g = registry.GROUND[gr["idx"]]
    if gr["crash"]:
      crash.append(f"ground {g['name']}: {gr['crash']}")
      continue
    counted += 1
    item = dict(name=g["name"], ok=gr["ok"], detail=gr["detail"], time=gr["time"])
    ground_out.append(item)
    solver_time += gr["time"]
    if gr["ok"]:
      n_discharged += 1
      by_backend["ground"] = by_backend.get("ground", 0) + 1
    else:
      f = match_known(known, prop, "ground", item)
      if f is not None:
        counted -= 1
        kf_obligations.append(dict(label="ground:" + g["name"], finding=f["id"], verdict="false", detail=gr["detail"]))
        known_lines.append(f"KNOWN-FINDING: property={prop} {f['id']} {f['what']}")
      else:
        rp = replay.make_simple(prop, "ground:" + g["name"], dict(detail=gr["detail"]))
        violations.append((rp, True, "ground:" + g["name"]))

  # bounded
  bounded_out = {}
  for br in b_res:
    b = registry.BOUNDED[br["idx"]]
    if not br["ok"]:
      crash.append(f"bounded {b['name']}: {br['crash']}")
      continue
    kf_here = 0
    for fid, (cnt, example, what) in br.get("known_hits", {}).items():
      kf_here += cnt
      line = f"KNOWN-FINDING: property={prop} {fid} {what}"
      if line not in known_lines:
        known_lines.append(line)
    for fl in br["failures"]:
      f = match_known(known, prop, "bounded", fl)
      if f is not None:
        kf_here += 1
        line = f"KNOWN-FINDING: property={prop} {f['id']} {f['what']}"
        if line not in known_lines:
          known_lines.append(line)
      else:
        rp = replay.make_simple(prop, "bounded:" + b["name"], fl)
        violations.append((rp, True, "bounded:" + b["name"]))
    bounded_out[b["name"]] = dict(functions=b["functions"], bound=b["bound"], exhaustive=b["exhaustive"],
                                  evaluations=br["evaluations"], distinct_nontrivial=br["distinct"],
                                  failures=len(br["failures"]), known_finding_failures=kf_here,
                                  samples=br["samples"], notes=br["notes"], time_s=round(br["time"], 2))

  if args.update_baseline:
    os.makedirs(os.path.join(VERIF, "baseline"), exist_ok=True)
    labs = sorted(o["label"] for o, r in zip(all_obs, results) if r["status"] == "unsat" and "[K:" not in o["label"])
    json.dump(dict(property=prop, labels=labs), open(base_path, "w"), indent=0)
    print(f"baseline written: {len(labs)} labels")

  # vacuity: zero obligations is a checker error for a proof-level claim
  if targets and not all_obs and not crash:
    crash.append("zero obligations generated")

  # evidence
  wall = time.time() - t_start
  funcs = sorted(targets)
  samples = []
  for o, r in list(zip(all_obs, results))[:2]:
    samples.append(dict(obligation=o["label"], kind=o["kind"], path=o["path"], verdict=r["status"],
                        backend=r["backend"], smt2_head=o["smt2"][:600]))
  for name, bo in list(bounded_out.items())[:3]:
    for s in bo["samples"][:1]:
      samples.append(dict(bounded=name, case=s))
  assumptions = []
  for g in gens:
    for a in g["assumed"]:
      c = C.REGISTRY[a]
      assumptions.append(f"assumed contract (body not verified): {a} -- {c.assumed_why}")
    for t in g["theories"]:
      assumptions.append("library theory: " + t)
    for a in g["abstracted"]:
      assumptions.append(f"abstracted in {g['target'].split('::')[1]}: {a}")
  assumptions += ["callee contracts are used modularly; every callee contract reached from this property's functions is "
                  "verified in this run as well (dependency closure, all clauses): " +
                  (", ".join(t.split("::")[1] for t in dep_targets) if dep_targets else "none beyond the property's own"),
                  "Python ints are mathematical integers (exact); z3 5.1 / cvc5 1.4 / this VC generator are trusted",
                  "implicit exceptions other than those listed in a total contract are not modelled "
                  "(MemoryError, RecursionError, KeyboardInterrupt)"]
  assumptions = sorted(set(assumptions))
  level = "proof" if (all_obs or ground_out) else "exploration"
  try:
    for chk in json.load(open(os.path.join(VERIF, "MANIFEST.json")))["checks"]:
      if chk["property_id"] == prop:
        level = chk["level_claimed"]["category"]
  except Exception:
    pass
  total_eval = sum(b["evaluations"] for b in bounded_out.values())
  total_distinct = sum(b["distinct_nontrivial"] for b in bounded_out.values())
  cov = dict(
      obligations=counted, discharged=n_discharged,
      checker_cmd=f"./check {prop} --tier {tier}",
      trusted_base=["z3 5.1.0 (Python API)", "cvc5 1.4.0 (fallback / cross-check)", "pyvc VC generator (this repo)",
                    "CPython 3.12", "library theories listed under assumptions"],
      functions_under_contract=funcs, function_status=func_status, by_backend=by_backend,
      solver_time_s=round(solver_time, 2),
      paths=sum(g["result"].get("paths", 0) for g in gens),
      known_finding_obligations=kf_obligations, ground=ground_out, bounded=bounded_out,
      evaluations=max(total_eval, 1 if level != "proof" else 0), distinct_nontrivial=total_distinct,
      rule="bounded tier: enumerators declared next to each check (see bounded.<name>.bound); a case is non-trivial "
           "when it exercises the checked function on an input the enumerator marks as such; distinct by input key",
      samples=samples or [dict(note="no samples")], undecided=undecided[:20], notes=notes[:20],
      exhaustive=False)
  ev = dict(property_id=prop, tier=tier, seed=seed, level=level, coverage=cov, assumptions=assumptions,
            wall_s=round(wall, 2), violations=len(violations))
  if level == "exploration":
    cov["evaluations"] = max(cov["evaluations"], 1)
    cov["explanation"] = ("bounded stand-in counts are in evaluations / distinct_nontrivial; the deductive obligations of "
                          "this property's contracts are reported in obligations / discharged")
  os.makedirs(os.path.join(VERIF, "evidence"), exist_ok=True)
  scratch = os.environ.get("VERIF_REPO") not in (None, "", "/repo")
  if not args.no_bounded and not args.only:      # development flags do not produce evidence
    # runs against a scratch copy of the repository (seeded changes) never overwrite the committed evidence
    edir = os.path.join(VERIF, "evidence", "scratch") if scratch else os.path.join(VERIF, "evidence")
    os.makedirs(edir, exist_ok=True)
    _validate_and_write(ev, os.path.join(edir, f"{prop}.json"))

  for l in sorted(set(known_lines)):
    print(l)
  for n in notes:
    print("note:", n)
  print(f"{prop} [{tier}] functions={len(funcs)} obligations={counted} discharged={n_discharged} "
        f"ground={len(ground_out)} bounded_evaluations={total_eval} undecided={len(undecided)} "
        f"violations={len(violations)} wall={wall:.1f}s")
  print(f"phases: generation {t_solve0 - t_gen0:.1f}s, solving {t_solve1 - t_solve0:.1f}s, "
        f"sequential retry of {n_retry} unknown(s) {t_retry1 - t_solve1:.1f}s, rest {time.time() - t_retry1:.1f}s")
  for o, r in zip(all_obs, results):
    if r.get("retried"):
      print(f"  needed the retry: {o['label'][:150]}")
  slow = sorted(((g["gen_time"], g["target"]) for g in gens if g["gen_time"] > 8), reverse=True)[:5]
  if slow:
    print("slow VC generation:", "; ".join(f"{t:.0f}s {n.split('::')[1]}" for t, n in slow))
  slow2 = sorted(((r.get("time", 0), o["label"][:80]) for o, r in zip(all_obs, results) if r.get("time", 0) > 8), reverse=True)[:5]
  if slow2:
    print("slow obligations:", "; ".join(f"{t:.0f}s {n}" for t, n in slow2))
  if crash:
    for c_ in crash:
      print("checker error:", c_[:2000])
    if not violations:
      return 3
    # a violation with its replay file stands on its own: it is reported even though another part of the check crashed
    # (typically the changed library raising inside a bounded check that does not expect exceptions)
  if violations:
    for path, reproduced, label in violations:
      tail = "" if reproduced else " no-failing-input-found"
      print(f"VIOLATION property={prop} replay={path}{tail}")
      print(f"  failed: {label}")
    return 1
  if undecided:
    for u in undecided[:20]:
      print("undecided:", u[:600])
    return 2
  return 0


def _model_inputs(o, r):
  m = r.get("model") or {}
  return {k: m.get(v) for k, v in o["inputs"].items() if v in m}


def _validate_and_write(ev, path):
  try:
    import jsonschema
    schema = json.load(open("/root/.vp/EVIDENCE.schema.json"))
    jsonschema.validate(ev, schema)
  except FileNotFoundError:
    pass
  tmp = path + ".tmp"
  with open(tmp, "w") as f:
    json.dump(ev, f, indent=1, default=str)
  os.replace(tmp, path)


if __name__ == "__main__":
  try:
    rc = main()
  except SystemExit:
    raise
  except BaseException:      # a crash of the checker itself is never a verdict about the library (exit 3, not 1)
    import traceback
    traceback.print_exc()
    print("checker error: uncaught exception in the checker (exit 3)")
    rc = 3
  try:
    if os.environ.get("VERIF_MARK"):
      open(os.environ["VERIF_MARK"], "w").write("done")
  except OSError:
    pass
  sys.exit(rc)
